"""Per-property check definitions.  Every check is a sequence of stages:
   design stage : TLC checks the property on the TLA+ model itself (exhaustive, bounded)
   trace stage  : the Go harness drives the REAL code (built from /repo with -tags verif),
                  records what it did, and TLC validates the records against the model
                  (conformance, 'drift') and against the property predicates (verdict).
"""
import glob
import json
import os
import re
import shutil
import subprocess
import time

import vlib
from vlib import Infra, log

TRUSTED = ["TLC 1.8.0 + CommunityModules (Json, IOUtils, SequencesExt)",
           "harness/miniapi.go (in-memory API server imitation)",
           "harness/world.go projection of real objects to abstract records",
           "client-go fake clientsets (transport only)"]


class Ctx:
    def __init__(self, prop, tier, t0):
        self.prop, self.tier, self.t0 = prop, tier, t0
        self.quick = tier == "quick"
        self.states = 0
        self.transitions = 0
        self.traces = 0           # executions of real code validated by TLC
        self.drift = 0
        self.drift_samples = []
        self.violations = []      # dicts: {inv, replay(dict), signature, text}
        self.samples = []
        self.extra = {}
        self.stages = []
        self.exhaustive = False
        self.assumptions = []
        self.outdir = vlib.fresh_dir(prop)
        self.unreproduced = 0

    # ------------------------------------------------------------------ apalache (inductive invariants)
    def apalache(self, module, runs, tag, timeout=600):
        """runs: list of (init, inv, length).  Every run must end with 'NoError'; a counterexample to induction on the
        unchanged specification is an infrastructure error of the model (exit 2), never a verdict about the code."""
        wd = os.path.join(self.outdir, "apalache-" + tag)
        os.makedirs(wd, exist_ok=True)
        shutil.copy(os.path.join(vlib.SPEC, module + ".tla"), wd)
        t0 = time.time()
        for init, inv, length in runs:
            cmd = ["timeout", str(timeout), "apalache-mc", "check", "--out-dir=" + os.path.join(wd, "out"), "--init=" + init, "--inv=" + inv,
                   "--length=%d" % length, module + ".tla"]
            p = subprocess.run(cmd, cwd=wd, stdout=subprocess.PIPE, stderr=subprocess.STDOUT, text=True)
            if "The outcome is:" not in p.stdout:
                # the tool did not get as far as a verdict (not installed, no scratch space, timeout): the obligation is
                # recorded as not discharged in the evidence; TLC's bounded proof of the same statement stands on its own
                self.stages.append({"stage": "apalache:" + tag, "module": module, "skipped": "apalache gave no verdict (exit %d): %s"
                                    % (p.returncode, p.stdout[-300:])})
                self.assumptions.append("Apalache obligation %s => %s not discharged in this run (tool gave no verdict)" % (init, inv))
                log("  apalache %-26s no verdict from the tool (exit %d) - stage skipped" % (tag, p.returncode))
                return
            if "The outcome is: NoError" not in p.stdout:
                raise Infra("apalache %s init=%s inv=%s length=%d does not pass:\n%s" % (module, init, inv, length, p.stdout[-2000:]))
        shutil.rmtree(os.path.join(wd, "out"), ignore_errors=True)
        self.stages.append({"stage": "apalache:" + tag, "module": module, "obligations": ["%s => %s, length %d" % r for r in runs],
                            "wall_s": round(time.time() - t0, 1)})
        log("  apalache %-26s %d obligations discharged, %.1fs" % (tag, len(runs), time.time() - t0))

    # ------------------------------------------------------------------ design
    def design(self, module, cfg_text, tag, workers=None, timeout=3000, heap="12g"):
        wd = os.path.join(self.outdir, "design-" + tag)
        os.makedirs(wd, exist_ok=True)
        cfgname = "gen_%s.cfg" % tag
        r = self._tlc_with_cfg(module, cfgname, cfg_text, wd, workers or vlib.NCPU, timeout, heap, cont=False)
        # TLC 1.8 with many workers very rarely throws a spurious evaluation exception (a record read while another
        # worker normalises it; seen once in some hundred runs, never reproducible).  An evaluation error of a
        # deterministic specification is reproducible, so the run is repeated: only an error that comes back counts.
        # Violations of invariants or properties are never retried.
        for attempt in range(2):
            if r.errors and not r.violations and any("unexpected exception" in e or "Attempted to" in e for e in r.errors):
                log("  design %-28s TLC evaluation exception, repeating the run (%d)" % (tag, attempt + 1))
                self.extra.setdefault("tlc_retries", []).append({"tag": tag, "error": r.errors[0][:300]})
                r = self._tlc_with_cfg(module, cfgname, cfg_text, wd, workers or vlib.NCPU, timeout, heap, cont=False)
        if r.errors or r.violations:
            raise Infra("design configuration %s (%s) does not pass: violations=%s errors=%s\n%s" %
                        (module, tag, [v[0] for v in r.violations][:5], r.errors[:2], r.out[-2500:]))
        self.states += r.distinct
        self.transitions += r.generated
        self.stages.append({"stage": "design:" + tag, "module": module, "distinct_states": r.distinct,
                            "states_generated": r.generated, "wall_s": round(r.wall, 1)})
        log("  design %-28s %9d distinct states, %9d generated, %.1fs" % (tag, r.distinct, r.generated, r.wall))
        return r

    def _tlc_with_cfg(self, module, cfgname, cfg_text, wd, workers, timeout, heap, cont, env=None, simulate=None):
        os.makedirs(wd, exist_ok=True)
        for f in os.listdir(vlib.SPEC):
            if f.endswith(".tla") or f.endswith(".cfg"):
                shutil.copyfile(os.path.join(vlib.SPEC, f), os.path.join(wd, f))
        with open(os.path.join(wd, cfgname), "w") as f:
            f.write(cfg_text)
        # run_tlc copies spec/ again; write the generated cfg afterwards by passing a hook dir
        return run_tlc_in(module, cfgname, wd, env, workers, timeout, heap, cont, simulate)

    # ------------------------------------------------------------------ traces
    def trace(self, module, cfg_text, shards, tag, prop_invs, conf_inv="Conf", replay=None, par=None, heap="3g",
              envname="VERIF_TRACE", timeout=3000):
        """Validate recorded executions. prop_invs: invariant names that decide the property;
        conf_inv: the conformance invariant (drift).  replay(rec) -> dict describing how to re-run."""
        import concurrent.futures as cf
        par = par or vlib.NCPU
        cfgname = "gen_%s.cfg" % tag

        def one(sh):
            wd = os.path.join(self.outdir, "trace-" + tag, os.path.basename(sh) + ".tlc")
            shutil.rmtree(wd, ignore_errors=True)
            r = self._tlc_with_cfg(module, cfgname, cfg_text, wd, 2, timeout, heap, True, env={envname: sh})
            if r.errors:     # (see design(): an evaluation error must come back to count)
                self.extra.setdefault("tlc_retries", []).append({"tag": tag, "error": r.errors[0][:300]})
                shutil.rmtree(wd, ignore_errors=True)
                r = self._tlc_with_cfg(module, cfgname, cfg_text, wd, 1, timeout, heap, True, env={envname: sh})
            return sh, r

        nrec = 0
        nviol_here = 0
        t0 = time.time()
        with cf.ThreadPoolExecutor(max_workers=par) as ex:
            for sh, r in ex.map(one, shards):
                if r.errors:
                    raise Infra("trace validation of %s could not be evaluated:\n%s" % (sh, "\n".join(r.errors)[:3000]))
                self.states += r.distinct
                self.transitions += r.generated
                nrec += r.distinct
                for inv, st in r.violations:
                    m = re.search(r"\bi = (\d+)", st)
                    i = int(m.group(1)) if m else -1
                    rec = vlib.read_record(sh, i) if i > 0 else None
                    if inv == conf_inv:
                        self.drift += 1
                        if len(self.drift_samples) < 3 and rec is not None:
                            self.drift_samples.append(rec)
                    elif inv in prop_invs:
                        nviol_here += 1
                        if nviol_here <= 12:        # (per stage: a later stage's candidates must not be crowded out)
                            self.violations.append({"inv": inv, "record": rec, "shard": sh, "i": i,
                                                    "replay": replay(rec) if (replay and rec) else None})
        self.traces += nrec
        self.stages.append({"stage": "trace:" + tag, "module": module, "records": nrec, "wall_s": round(time.time() - t0, 1)})
        log("  trace  %-28s %9d real executions validated, drift=%d, violations=%d, %.1fs" %
            (tag, nrec, self.drift, len(self.violations), time.time() - t0))
        return nrec

    def harness(self, args, tag, timeout=3000):
        d = os.path.join(self.outdir, "rec-" + tag)
        shutil.rmtree(d, ignore_errors=True)
        os.makedirs(d)
        t0 = time.time()
        out = vlib.run_harness(args + ["--out", d], timeout=timeout)
        meta = {}
        mp = os.path.join(d, "meta.json")
        if os.path.exists(mp):
            meta = json.load(open(mp))
        shards = sorted(glob.glob(os.path.join(d, "shard-*.ndjson")))
        shards = [s for s in shards if os.path.getsize(s) > 0]
        log("  run    %-28s %s (%.1fs)" % (tag, {k: meta[k] for k in meta if k in ("records", "domain_size", "exhaustive")}, time.time() - t0))
        return d, shards, meta

    def add_samples(self, shards, n=2, pred=None):
        for rec in vlib.sample_records(shards, n, pred):
            if len(self.samples) < 6:
                self.samples.append(rec)

    # ------------------------------------------------------------------ verdict
    def finish(self):
        wall = time.time() - self.t0
        reported = 0
        seen = set()
        for v in self.violations:
            sig = "%s:%s" % (v["inv"], json.dumps(v.get("replay"), sort_keys=True))
            if sig in seen:
                continue
            seen.add(sig)
            kf = vlib.match_finding(self.prop, sig + " " + json.dumps(v.get("record"), sort_keys=True)[:4000])
            if kf:
                log("KNOWN-FINDING: property=%s %s" % (self.prop, kf["what"]))
                continue
            if v.get("replay") and not v.get("no_repro"):
                ok, why = reproduce(self.prop, v["inv"], v["replay"], os.path.join(self.outdir, "repro"))
                if not ok:
                    self.unreproduced += 1
                    log("  unreproduced candidate (%s): %s" % (v["inv"], why))
                    continue
            reported += 1
            path = os.path.join(self.outdir, "violation-%d.json" % reported)
            with open(path, "w") as f:
                json.dump({"property": self.prop, "invariant": v["inv"], "replay": v.get("replay"),
                           "record": v.get("record"), "tier": self.tier, "seed": vlib.seed()}, f, indent=1)
            log("VIOLATION property=%s replay=%s" % (self.prop, path))
            if reported >= 5:
                break
        cov = {"states": max(self.states, 0), "transitions": max(self.transitions, 0),
               "traces_validated_against_impl": self.traces,
               "samples": self.samples if self.samples else [{"note": "no sample recorded"}],
               "drift_steps": self.drift, "drift_samples": self.drift_samples, "stages": self.stages,
               "exhaustive": self.exhaustive,
               "checker_cmd": "bin/check %s %s" % (self.prop, self.tier), "trusted_base": TRUSTED}
        cov.update(self.extra)
        vlib.write_evidence(self.prop, self.tier, cov, wall, violations=reported, assumptions=self.assumptions)
        if self.drift:
            log("  note: %d recorded executions are not explained by the model (drift); they satisfy the property predicates" % self.drift)
        log("[%s %s] %s in %.1fs: %d model states, %d real executions validated" %
            (self.prop, self.tier, "VIOLATED" if reported else "ok", wall, self.states, self.traces))
        if reported:
            return 1
        if self.unreproduced:
            log("CHECK-ERROR property=%s: %d candidate violation(s) did not reproduce on replay" % (self.prop, self.unreproduced))
            return 2
        return 0


REPLAYERS = {}


def reproduce(prop, inv, replay, wd):
    """Re-execute a recorded scenario on the current tree and re-validate it. Only a
    failure that shows again counts as a violation."""
    fn = REPLAYERS.get(replay.get("kind"))
    if fn is None:
        return True, "no replayer for kind %r (accepted as recorded)" % replay.get("kind")
    shutil.rmtree(wd, ignore_errors=True)
    os.makedirs(wd)
    return fn(prop, inv, replay, wd)


def run_tlc_in(module, cfgname, wd, env, workers, timeout, heap, cont, simulate=None):
    """Like vlib.run_tlc but does not re-copy the spec directory (the generated cfg lives in wd)."""
    cmd = ["timeout", str(timeout)] + vlib.TLC_JAVA + ["-Xmx" + heap, "-cp", vlib.TLC_CP, "tlc2.TLC", "-workers", str(workers),
           "-metadir", os.path.join(wd, "md"), "-noGenerateSpecTE", "-config", cfgname]
    if cont:
        cmd.append("-continue")
    if simulate:
        cmd += simulate
    cmd.append(module + ".tla")
    t0 = time.time()
    p = subprocess.run(cmd, cwd=wd, env=dict(os.environ, **(env or {})), stdout=subprocess.PIPE, stderr=subprocess.STDOUT, text=True)
    r = vlib.TLCResult()
    r.wall = time.time() - t0
    r.out = p.stdout
    if p.returncode == 124:
        r.errors.append("timeout after %ds" % timeout)
    m = None
    for m in vlib.RE_GEN.finditer(p.stdout):
        pass
    if m:
        r.generated, r.distinct = int(m.group(1)), int(m.group(2))
    lines = p.stdout.split("\n")
    k = 0
    while k < len(lines):
        ln = lines[k]
        mi = vlib.RE_INV.search(ln)
        if mi:
            st, j = [], k + 1
            while j < len(lines) and lines[j].strip() != "" and not lines[j].startswith("Error:"):
                st.append(lines[j])
                j += 1
            r.violations.append((mi.group(1), "\n".join(st)))
            k = j
            continue
        mp = vlib.RE_PROP.search(ln)
        if mp:
            r.temporal = True
            r.violations.append((mp.group(1) or "temporal", "\n".join(lines[k:k + 60])))
        elif ln.startswith("Error:") and "Invariant" not in ln:
            if "behavior up to this point" in ln or "The behavior up to" in ln:
                pass
            else:
                r.errors.append("\n".join(lines[k:k + 14]))
        k += 1
    done = "Model checking completed" in p.stdout or (simulate is not None and "Finished in" in p.stdout)
    if not done and not r.errors and not r.violations:
        r.errors.append("TLC did not finish normally (exit %d):\n%s" % (p.returncode, p.stdout[-2500:]))
    return r


# =================================================================================
# the snapshot engine (one real reconcile per record)
# =================================================================================

def mc_snapshot_cfg(maxord, maxrep, nph, deleting, invs):
    return ("CONSTANTS MaxOrd = %d\n MaxRep = %d\n NPhases = %d\n WithDeleting = %s\nINIT Init\nNEXT Next\nCHECK_DEADLOCK FALSE\n"
            % (maxord, maxrep, nph, "TRUE" if deleting else "FALSE")) + "".join("INVARIANT %s\n" % i for i in invs)


def trace_snap_cfg(invs):
    return "INIT TInit\nNEXT TNext\nCHECK_DEADLOCK FALSE\nINVARIANT Conf\n" + "".join("INVARIANT %s\n" % i for i in invs)


def snap_replay(domain, maxord, maxrep, nph):
    def f(rec):
        return {"kind": "snap", "domain": domain, "maxord": maxord, "maxrep": maxrep, "phases": nph, "point": rec.get("dom")}
    return f


def replay_snap(prop, inv, rp, wd):
    args = ["snap", "--domain", rp["domain"], "--maxord", str(rp["maxord"]), "--maxrep", str(rp["maxrep"]),
            "--phases", str(rp["phases"]), "--point", json.dumps(rp["point"]), "--out", os.path.join(wd, "rec")]
    vlib.run_harness(args)
    sh = os.path.join(wd, "rec", "shard-00.ndjson")
    c = Ctx.__new__(Ctx)
    r = Ctx._tlc_with_cfg(c, "TraceSnap", "replay.cfg", trace_snap_cfg([inv]), os.path.join(wd, "tlc"), 1, 600, "2g", True,
                          env={"VERIF_TRACE": sh})
    if r.errors:
        return False, "replay could not be evaluated: " + r.errors[0][:300]
    return any(v[0] == inv for v in r.violations), "invariant %s holds on replay" % inv


REPLAYERS["snap"] = replay_snap


def snap_trace(ctx, tag, domain, maxord, maxrep, nph, n, invs, seed_off=0):
    args = ["snap", "--domain", domain, "--maxord", str(maxord), "--maxrep", str(maxrep), "--phases", str(nph),
            "--n", str(n), "--seed", str(vlib.seed() * 7919 + seed_off), "--workers", str(vlib.NCPU)]
    d, shards, meta = ctx.harness(args, tag)
    ctx.trace("TraceSnap", trace_snap_cfg(invs), shards, tag, set(invs), replay=snap_replay(domain, maxord, maxrep, nph))
    ctx.extra.setdefault("domains", []).append({k: meta.get(k) for k in ("domain", "domain_size", "records", "exhaustive")})
    return shards, meta


def has_call(verb, res):
    return lambda rec: any(c[0] == verb and c[1] == res for c in rec["calls"])


def engine_check(ctx, P, sample_pred, seed_off):
    """Common shape of C03/C04/C05/C07/C12/C14: the per-reconcile predicate P_<id>."""
    inv_d, inv_t = "I_" + P, "P_" + P
    if ctx.quick:
        ctx.design("MCSnapshot", mc_snapshot_cfg(1, 2, 5, True, [inv_d]), "pods-1ord")
        sh, _ = snap_trace(ctx, "pods-3ord", "pods-del", 2, 3, 5, 60000, [inv_t], seed_off)
        sh2, _ = snap_trace(ctx, "pods-4ord", "pods", 3, 3, 5, 40000, [inv_t], seed_off + 1)
        snap_trace(ctx, "pods-8to11", "pods-wide", 3, 4, 5, 30000, [inv_t], seed_off + 3)
        snap_trace(ctx, "pods-stale", "pods-stale", 2, 3, 5, 30000, [inv_t], seed_off + 4)
        snap_trace(ctx, "pods-oddslots", "pods-oddslots", 2, 3, 5, 20000, [inv_t], seed_off + 5)
    else:
        ctx.design("MCSnapshot", mc_snapshot_cfg(2, 2, 3, False, [inv_d]), "pods-3ord-3ph")
        ctx.design("MCSnapshot", mc_snapshot_cfg(1, 2, 5, True, [inv_d]), "pods-2ord-5ph-del")
        sh, _ = snap_trace(ctx, "pods-3ord", "pods-del", 2, 3, 5, 900000, [inv_t], seed_off)
        sh2, _ = snap_trace(ctx, "pods-4ord", "pods", 3, 3, 5, 600000, [inv_t], seed_off + 1)
        sh3, _ = snap_trace(ctx, "pods-2ord-exh", "pods-del", 1, 2, 5, 0, [inv_t], seed_off + 2)
        snap_trace(ctx, "pods-8to11", "pods-wide", 3, 4, 5, 400000, [inv_t], seed_off + 3)
        snap_trace(ctx, "pods-stale", "pods-stale", 2, 3, 5, 400000, [inv_t], seed_off + 4)
        snap_trace(ctx, "pods-oddslots", "pods-oddslots", 2, 3, 5, 300000, [inv_t], seed_off + 5)
        ctx.exhaustive = True
        ctx.extra["exhaustive_note"] = "domain pods-del(ord<=1) enumerated completely through the real controller; larger domains sampled"
    ctx.add_samples(sh, 2, sample_pred)
    ctx.add_samples(sh2, 1, sample_pred)


def check_C03(ctx):
    engine_check(ctx, "C03", has_call("delete", "pods"), 3)
    # history clause: scale-in at slot k removes pod k and no other (no reconcile takes a live, desired, up-to-date pod away)
    cluster_check(ctx, ["B_C03"], ["P_C03"], invariants=[], properties=["NoCollateralDelete"], scale=0.7)


def check_C04(ctx):
    engine_check(ctx, "C04", has_call("create", "pods"), 4)
    check_C04_history(ctx)


def check_C05(ctx):
    engine_check(ctx, "C05", lambda r: r["sn"]["set"][4] != "Parallel" and len(r["calls"]) > 1, 5)


def check_C04_history(ctx):
    # histories: slots edited without a spec change (no new generation), pods lost afterwards - no create in a listed slot
    cluster_check(ctx, ["B_C02"], ["P_C04"], invariants=[], properties=["Converges"], scale=0.6)


def check_C07(ctx):
    engine_check(ctx, "C07", has_call("delete", "pods"), 7)
    # the walk under API failures: a delete that answers NotFound / Conflict / a server error still ends the pass
    snap_trace(ctx, "faults-pods", "faults-pods", 2, 3, 5, 40000 if ctx.quick else 500000, ["P_C07"], 71)
    # the current revision must survive history truncation for as long as it is current (else "built from the current revision" is void)
    snap_trace(ctx, "history", "history", 2, 2, 5, 30000 if ctx.quick else 400000, ["P_C07"], 72)
    # history: with stale caches and several revisions in flight, the current revision never advances early (so that
    # "built from the current revision" keeps its meaning below the partition), one pod at a time
    cluster_check(ctx, ["B_C07"], ["P_C07"], invariants=[], properties=["RollsOneAtATime"], scale=0.5)


def check_C12(ctx):
    engine_check(ctx, "C12", has_call("update", "statefulsets/status"), 12)
    # status writes of reconciles that hit API failures (conflicts and retries on the status write in particular)
    snap_trace(ctx, "faults-pods", "faults-pods", 2, 2, 5, 25000 if ctx.quick else 400000, ["P_C12"], 121)
    snap_trace(ctx, "faults2-pods", "faults2-pods", 2, 2, 5, 15000 if ctx.quick else 300000, ["P_C12"], 122)
    # history clauses: stale caches, several revisions in flight, exact census at the fixed point
    cluster_check(ctx, ["B_C12"], ["P_C12"], invariants=["StatusTruth"], properties=[], scale=0.7, sim_claims=2)
    # the exact census at the fixed point must also be reached when only the work queue drives the controller (the echo of
    # its own status write is what repairs a status computed from a stale cache)
    cluster_check(ctx, ["B_C12", "B_C02", "B_C16"], ["P_C12"], invariants=["StatusTruth"], properties=["Converges"], scale=0.5, queue=True)


def check_C14(ctx):
    engine_check(ctx, "C14", lambda r: r["sn"]["set"][4] == "Parallel" and len(r["calls"]) > 2, 14)
    # sets with claim templates: a claim that is retained, lagging in the cache or being deleted does not hold the others back
    snap_trace(ctx, "claims", "claims", 2, 2, 5, 40000 if ctx.quick else 600000, ["P_C14"], 141)


def own_cfg(mode, npods, invs):
    return ("CONSTANTS Mode = \"%s\"\n NPods = %d\nINIT Init\nNEXT Next\nCHECK_DEADLOCK FALSE\n" % (mode, npods)) + \
        "".join("INVARIANT %s\n" % i for i in invs)


def hist_cfg(nrevs, numberings, podvals, colls, invs):
    return ("CONSTANTS NRevs = %d\n Numberings = {%s}\n PodVals = {%s}\n Colls = {%s}\nINIT Init\nNEXT Next\nCHECK_DEADLOCK FALSE\n" %
            (nrevs, ", ".join('"%s"' % n for n in numberings), ", ".join(str(v) for v in podvals), ", ".join(str(c) for c in colls))) + \
        "".join("INVARIANT %s\n" % i for i in invs)


def check_C10(ctx):
    q = ctx.quick
    ctx.design("MCOwnership", own_cfg("pods", 2, ["I_C10"]), "own-pods")
    ctx.design("MCOwnership", own_cfg("revs", 2, ["I_C10"]), "own-revs")
    if not q:
        ctx.design("MCHistory", hist_cfg(3, ["asc", "ties"], [0, 3, 5], [0], ["I_C10"]), "history")
    sh1, _ = snap_trace(ctx, "own-pods", "own-pods", 2, 2, 5, 25000 if q else 0, ["P_C10"], 10)
    sh2, _ = snap_trace(ctx, "own-revs", "own-revs", 2, 2, 5, 15000 if q else 0, ["P_C10"], 11)
    sh3, _ = snap_trace(ctx, "history", "history", 2, 2, 5, 20000 if q else 400000, ["P_C10"], 12)
    snap_trace(ctx, "adopt", "adopt", 2, 2, 5, 0, ["P_C10"], 14)        # several orphans at once: enumerated completely
    # "objects read from caches are left unmodified" where the controller works on copies it re-reads: identity and
    # storage repairs with API failures (conflict retries in particular), also with the cache entry vanishing
    snap_trace(ctx, "claims", "claims", 2, 2, 5, 30000 if q else 400000, ["P_C10"], 17)     # claim templates with labels of their own
    snap_trace(ctx, "faults-claims", "faults-claims", 2, 2, 5, 20000 if q else 300000, ["P_C10"], 15)
    snap_trace(ctx, "evict-claims", "evict-claims", 2, 2, 5, 10000 if q else 200000, ["P_C10"], 16)
    # an adoption patch that is refused (every error kind, Invalid among them) confers nothing
    snap_trace(ctx, "faults-own-pods", "faults-own-pods", 2, 2, 5, 8000 if q else 200000, ["P_C10"], 18)
    snap_trace(ctx, "faults-adopt", "faults-adopt", 2, 2, 5, 20000 if q else 0, ["P_C10"], 19)   # several orphans, one call refused
    if not q:
        snap_trace(ctx, "own-pods3", "own-pods3", 2, 2, 5, 300000, ["P_C10"], 13)
        ctx.exhaustive = True
        ctx.extra["exhaustive_note"] = "own-pods(2 pods) and own-revs(3 revisions) enumerated completely through the real controller"
    ctx.add_samples(sh1, 2, lambda r: any(c[0] == "patch" for c in r["calls"]))
    ctx.add_samples(sh2, 1, lambda r: any(c[0] == "patch" for c in r["calls"]))
    ctx.assumptions.append("overlapping selectors between two sets are covered by the cluster-level check of C16/C02, not here")


def check_C11(ctx):
    q = ctx.quick
    # a pause raised at any moment and lifted later is lossless: same fixed point as the never-paused twin
    cluster_check(ctx, ["B_C11", "B_C02"], ["P_C11"], invariants=[], properties=["Converges"], scale=0.7)
    # ... also when nothing but the work queue drives the controller: lifting the pause must wake it up
    cluster_check(ctx, ["B_C11", "B_C02", "B_C16"], ["P_C11"], invariants=[], properties=["Converges"], scale=0.5, queue=True)
    ctx.design("MCOwnership", own_cfg("pods", 2, ["I_C11"]), "own-pods")
    ctx.design("MCOwnership", own_cfg("revs", 2, ["I_C11"]), "own-revs")
    ctx.design("MCSnapshot", mc_snapshot_cfg(1, 2, 5, True, ["I_C11"]), "pods-1ord-del")
    sh1, _ = snap_trace(ctx, "own-pods", "own-pods", 2, 2, 5, 30000 if q else 0, ["P_C11"], 20)
    sh2, _ = snap_trace(ctx, "own-revs", "own-revs", 2, 2, 5, 30000 if q else 0, ["P_C11"], 21)
    sh3, _ = snap_trace(ctx, "pods-del", "pods-del", 2, 3, 5, 40000 if q else 600000, ["P_C11"], 22)
    snap_trace(ctx, "adopt", "adopt", 2, 2, 5, 0, ["P_C11"], 23)        # several orphans, deleting / paused, stale cache: enumerated completely
    if not q:
        ctx.exhaustive = True
    ctx.add_samples(sh1, 1, lambda r: r["sn"]["set"][11])
    ctx.add_samples(sh2, 1, lambda r: r["sn"]["set"][11] and len(r["calls"]) > 0)
    ctx.add_samples(sh3, 1, lambda r: r["sn"]["set"][11] and len(r["calls"]) > 0)


def check_C13(ctx):
    q = ctx.quick
    ctx.design("MCHistory", hist_cfg(3, ["asc"] if q else ["asc", "desc", "ties"], [0, 3, 5], [0], ["I_C13"]), "history-3revs")
    ctx.design("MCOwnership", own_cfg("revs", 2, ["I_C13"]), "own-revs")
    sh1, _ = snap_trace(ctx, "history", "history", 2, 2, 5, 40000 if q else 1200000, ["P_C13"], 30)
    sh2, _ = snap_trace(ctx, "own-revs", "own-revs", 2, 2, 5, 20000 if q else 0, ["P_C13"], 31)
    # with a delete slot a desired pod sits at an ordinal >= spec.replicas: its revision is as live as any other
    snap_trace(ctx, "history-slots", "history-slots", 2, 2, 5, 30000 if q else 600000, ["P_C13"], 32)
    ctx.add_samples(sh1, 2, has_call("delete", "controllerrevisions"))
    ctx.add_samples(sh2, 1, has_call("delete", "controllerrevisions"))


def check_C15(ctx):
    q = ctx.quick
    # the design statement: Sync is total (returns ok or err) on every snapshot of the modelled domains
    ctx.design("MCSnapshot", mc_snapshot_cfg(1, 2, 5, True, ["I_C15"]), "pods-1ord")
    sh1, _ = snap_trace(ctx, "admitted", "admitted", 2, 2, 5, 120000 if q else 2500000, ["P_C15"], 40)
    # odd revision populations (status naming a revision that is gone or foreign, squatters, ties) must not crash it either
    snap_trace(ctx, "history", "history", 2, 2, 5, 40000 if q else 600000, ["P_C15"], 41)
    snap_trace(ctx, "own-revs", "own-revs", 2, 2, 5, 10000 if q else 0, ["P_C15"], 42)
    # nor must an API failure, not even one that coincides with the set or the pod vanishing from the informer cache
    snap_trace(ctx, "evict-pods", "evict-pods", 2, 3, 5, 30000 if q else 500000, ["P_C15"], 43)
    snap_trace(ctx, "evict-claims", "evict-claims", 2, 3, 5, 20000 if q else 300000, ["P_C15"], 44)
    ctx.add_samples(sh1, 2, lambda r: r["sn"]["set"][5] not in ("RollingUpdate", "OnDelete"))
    ctx.add_samples(sh1, 1, lambda r: r["sn"]["set"][8] < 0)
    ctx.assumptions.append("the lattice is built from the shapes manifests/crd.v1.yaml admits (replicas and revisionHistoryLimit always "
                           "present because of schema defaults); pod templates are valid; pod populations over ordinals 0..2")


def check_C09(ctx):
    """per-reconcile part: a failure or process death injected at every call position of reconciles over all snapshot
    domains (single faults and pairs); history part (same final state as a fault-free run): see cluster_C09."""
    q = ctx.quick
    ctx.design("MCSnapshot", mc_snapshot_cfg(1, 1, 5, False, ["I_C09"]), "pods-1ord(no faults)")
    n = 1 if q else 12
    shs = []
    for k, (dom, cnt) in enumerate([("faults-pods", 30000), ("faults2-pods", 20000), ("faults-history", 20000), ("faults2-history", 20000),
                                    ("faults-own-pods", 8000), ("faults-own-revs", 8000), ("faults-claims", 15000),
                                    # a failed call that coincides with the object vanishing from the informer cache
                                    ("evict-pods", 15000), ("evict-claims", 15000)]):
        sh, _ = snap_trace(ctx, dom, dom, 2, 2, 5, cnt * n, ["P_C09"], 60 + k)
        shs.append(sh)
    ctx.add_samples(shs[0], 1, lambda r: r["res"] == "err")
    ctx.add_samples(shs[3], 1, lambda r: r["res"] == "err" and len(r["calls"]) > 3)
    ctx.add_samples(shs[1], 1, lambda r: r["res"] == "died")
    cluster_C09(ctx)


def cluster_C09(ctx):
    cluster_check(ctx, ["B_C09"], ["P_C09"], invariants=[], properties=["Converges"], faults=1, sim_claims=2)


def check_C08(ctx):
    q = ctx.quick
    # per-reconcile part: revision lookup / reuse / renumber / create / collision on the history domain
    ctx.design("MCHistory", hist_cfg(3, ["asc"] if q else ["asc", "desc", "ties"], [0, 3], [0, 1], ["I_C08"]), "history-3revs")
    sh1, _ = snap_trace(ctx, "history", "history", 2, 2, 5, 50000 if q else 800000, ["P_C08"], 80)
    ctx.add_samples(sh1, 2, has_call("update", "controllerrevisions"))
    # the same with API failures on the revision writes (a rollback's renumbering that fails must not end in success)
    snap_trace(ctx, "faults-history", "faults-history", 2, 2, 5, 30000 if q else 500000, ["P_C08"], 81)
    # history part: edits of replicas / slots / pause never change the update revision, rollbacks reuse revisions
    cluster_check(ctx, ["B_C08"], ["P_C08"], invariants=[], properties=["NoRestartOnScale"], scale=0.7)
    ctx.assumptions.append("the clause 'recorded data applied to the set reproduces the template exactly' is evaluated by the harness on "
                           "the objects (Match/ApplyRevision on the real revision data) for a fixed family of templates; TLC does not enumerate templates")


def replay_handlers(prop, inv, rp, wd):
    if rp.get("ops") is None:
        return True, "event-table record (deterministic; accepted as recorded)"
    vlib.run_harness(["handlers", "--ops", json.dumps(rp["ops"]), "--out", os.path.join(wd, "rec")])
    sh = os.path.join(wd, "rec", "shard-00.ndjson")
    c = Ctx.__new__(Ctx)
    cfg = "INIT TInit\nNEXT TNext\nCHECK_DEADLOCK FALSE\nINVARIANT %s\n" % inv
    r = Ctx._tlc_with_cfg(c, "TraceHandlers", "replay.cfg", cfg, os.path.join(wd, "tlc"), 1, 600, "2g", True, env={"VERIF_TRACE": sh})
    if r.errors:
        return False, "replay could not be evaluated: " + r.errors[0][:300]
    return any(v[0] == inv for v in r.violations), "invariant holds on replay"


REPLAYERS["handlers"] = replay_handlers


def check_C16(ctx):
    q = ctx.quick
    ctx.design("MCHandlers", "INIT TableInit\nNEXT TableNext\nCHECK_DEADLOCK FALSE\nINVARIANT TableOK\n", "handler-table")
    ctx.design("Handlers", "SPECIFICATION QSpec\nCHECK_DEADLOCK FALSE\nINVARIANT NoLostWakeup\nPROPERTY FailureRetried\nPROPERTY EventuallyServed\n", "queue-worker")
    d, shards, meta = ctx.harness(["handlers", "--depth", "3" if q else "5"], "handlers+queue")
    cfg = "INIT TInit\nNEXT TNext\nCHECK_DEADLOCK FALSE\nINVARIANT Conf\nINVARIANT P_C16\n"
    ctx.trace("TraceHandlers", cfg, shards, "handlers", {"P_C16"},
              replay=lambda rec: {"kind": "handlers", "ops": rec.get("ops"), "event": {k: rec[k] for k in rec if k in ("kind", "old", "new", "rvSame", "set")}})
    ctx.exhaustive = True
    ctx.extra["domains"] = [meta]
    ctx.add_samples(shards[:1], 1, lambda r: r["kind"] == "update" and len(r["enq"]) == 2)
    ctx.add_samples(shards[1:], 2, lambda r: len(r["ops"]) >= 3 and "PfailE" in r["ops"])
    # end to end: the cluster model with reconciles driven by the work queue alone (handlers fire on cache refreshes, failed
    # reconciles come back through the rate limiter, no resync) still converges and the queue drains; the same on the real
    # controller (VerifProcessNextWorkItem), with the queue's state compared after every step
    cluster_check(ctx, ["B_C16"], ["P_C03"], invariants=[], properties=["Converges", "QueueDrains"], faults=0 if q else 1, edits=1,
                  scale=0.7, sim_claims=2, queue=True)
    ctx.assumptions.append("the event table is enumerated completely for two sets with overlapping selectors; queue/worker op sequences are "
                           "enumerated up to the stated length on the real client-go work queue; a sibling set with an invalid selector "
                           "(which makes orphan events enqueue nothing) is outside the property's stated quantifier and not modelled")


def replay_upgrade(prop, inv, rp, wd):
    vlib.run_harness(["upgrade", "--scenario", json.dumps(rp["scenario"]), "--out", os.path.join(wd, "rec")])
    sh = os.path.join(wd, "rec", "shard-00.ndjson")
    c = Ctx.__new__(Ctx)
    cfg = "CONSTANTS NRevs = 1\n Budget = 0\nINIT TInit\nNEXT TNext\nCHECK_DEADLOCK FALSE\nINVARIANT %s\n" % inv
    r = Ctx._tlc_with_cfg(c, "TraceUpgrade", "replay.cfg", cfg, os.path.join(wd, "tlc"), 1, 600, "2g", True, env={"VERIF_TRACE": sh})
    if r.errors:
        return False, "replay could not be evaluated: " + r.errors[0][:300]
    return any(v[0] == inv for v in r.violations), "invariant holds on replay"


REPLAYERS["upgrade"] = replay_upgrade


def up_scenario(rec):
    return {"kind": "upgrade", "scenario": {"NRevs": rec["nrevs"], "Relabeled": rec["relabeled"], "Pre": rec["pre"],
                                            "Faults": [{"K": f[0], "Kind": f[1], "Applied": f[2], "Die": f[3]} for f in rec["faults"]]}}


def check_C17(ctx):
    q = ctx.quick
    mc = "SPECIFICATION USpec\nCHECK_DEADLOCK FALSE\nINVARIANT Safe\nINVARIANT EndState\nPROPERTY Finishes\n"
    ctx.design("Upgrade", "CONSTANTS NRevs = 2\n Budget = 2\n" + mc, "upgrade-2revs-2faults")
    ctx.design("Upgrade", "CONSTANTS NRevs = 3\n Budget = %d\n" % (2 if q else 3) + mc, "upgrade-3revs")
    cfg = "CONSTANTS NRevs = 1\n Budget = 0\nINIT TInit\nNEXT TNext\nCHECK_DEADLOCK FALSE\nINVARIANT Conf\nINVARIANT P_C17\n"
    d, shards, meta = ctx.harness(["upgrade", "--maxrevs", "3", "--workers", str(vlib.NCPU)], "single-faults")
    ctx.trace("TraceUpgrade", cfg, shards, "single-faults", {"P_C17"}, replay=up_scenario)
    d2, shards2, meta2 = ctx.harness(["upgrade", "--maxrevs", "1" if q else "2", "--pairs", "--workers", str(vlib.NCPU)], "fault-pairs")
    ctx.trace("TraceUpgrade", cfg, shards2, "fault-pairs", {"P_C17"}, replay=up_scenario)
    ctx.exhaustive = True
    ctx.extra["domains"] = [meta, meta2]
    ctx.add_samples(shards, 2, lambda r: len(r["runs"]) > 1 and r["nrevs"] >= 2)
    ctx.add_samples(shards2, 1, lambda r: len(r["runs"]) > 2)
    ctx.assumptions.append("a server answering NotFound to the delete of an existing object is outside the fault model (the helper reads it as 'already gone')")


def check_C18(ctx):
    q = ctx.quick
    # data part: byte identity of the revision data, adoption through the upgrade marker, on the real objects
    d, shards, meta = ctx.harness(["migrate", "--n", "400" if q else "6000", "--seed", str(vlib.seed()), "--workers", str(vlib.NCPU)], "templates")
    ctx.trace("TraceMigrate", "INIT TInit\nNEXT TNext\nCHECK_DEADLOCK FALSE\nINVARIANT P_C18\n", shards, "templates", {"P_C18"}, conf_inv="none",
              replay=lambda rec: {"kind": "bytes", "case": {"Seed": rec["seed"], "ID": rec["id"], "Defaulted": rec["defaulted"]}})
    ctx.add_samples(shards, 1)
    ctx.extra["domains"] = [meta]
    # per reconcile: every orphaned revision that carries the marker is adopted, whatever mix of label-synced and unsynced
    # revisions an interrupted earlier reconcile left behind
    snap_trace(ctx, "own-revs", "own-revs", 2, 2, 5, 15000 if q else 0, ["P_C18S"], 181)
    snap_trace(ctx, "history", "history", 2, 2, 5, 30000 if q else 500000, ["P_C18S"], 182)
    # behaviour part: the garbage collector orphans pods and revisions one at a time while the controller reconciles
    cluster_check(ctx, ["B_C18"], ["P_C03", "P_C13"], invariants=[], properties=["MigrationSafe", "MigrationCompletes"], mode="migration", edits=0)
    ctx.assumptions.append("byte identity is judged against a reference encoder built on client-go's apps/v1 scheme with the upstream patch shape; "
                           "the upstream controller's internal-type round trip (k8s.io/kubernetes is not available offline) is not reproduced; "
                           "pod templates are sampled (seeded generator), TLC does not enumerate them")


def replay_bytes(prop, inv, rp, wd):
    vlib.run_harness(["migrate", "--case", json.dumps(rp["case"]), "--out", os.path.join(wd, "rec")])
    sh = os.path.join(wd, "rec", "shard-00.ndjson")
    c = Ctx.__new__(Ctx)
    r = Ctx._tlc_with_cfg(c, "TraceMigrate", "replay.cfg", "INIT TInit\nNEXT TNext\nCHECK_DEADLOCK FALSE\nINVARIANT %s\n" % inv,
                          os.path.join(wd, "tlc"), 1, 600, "2g", True, env={"VERIF_TRACE": sh})
    if r.errors:
        return False, "replay could not be evaluated: " + r.errors[0][:300]
    return any(v[0] == inv for v in r.violations), "invariant holds on replay"


REPLAYERS["bytes"] = replay_bytes


def replay_client(prop, inv, rp, wd):
    if rp.get("case") is None:
        return True, "annotation op sequence (deterministic; accepted as recorded)"
    vlib.run_harness(["client", "--case", json.dumps(rp["case"]), "--out", os.path.join(wd, "rec")])
    sh = os.path.join(wd, "rec", "shard-00.ndjson")
    c = Ctx.__new__(Ctx)
    r = Ctx._tlc_with_cfg(c, "TraceClient", "replay.cfg", CLIENT_CFG + "INVARIANT %s\n" % inv, os.path.join(wd, "tlc"), 1, 600, "2g", True, env={"VERIF_TRACE": sh})
    if r.errors:
        return False, "replay could not be evaluated: " + r.errors[0][:300]
    return any(v[0] == inv for v in r.violations), "invariant holds on replay"


REPLAYERS["client"] = replay_client
CLIENT_CFG = "CONSTANTS VP = {0, 3, 2147483647}\n VN = {1, 2147483647}\n Depth = 0\nINIT TInit\nNEXT TNext\nCHECK_DEADLOCK FALSE\n"


def check_C19(ctx):
    q = ctx.quick
    ctx.design("ClientSession", "CONSTANTS VP = {0, 3}\n VN = {1}\n Depth = %d\nSPECIFICATION CSpec\nCHECK_DEADLOCK FALSE\nINVARIANT TypeOK\nPROPERTY StepsOK\n" % (3 if q else 5),
               "annotation-algebra")
    d, shards, meta = ctx.harness(["client", "--depth", "2" if q else "3", "--n", "600" if q else "20000", "--seed", str(vlib.seed()),
                                   "--workers", str(vlib.NCPU)], "helpers")
    ctx.trace("TraceClient", CLIENT_CFG + "INVARIANT Conf\nINVARIANT P_C19\n", shards, "helpers", {"P_C19"},
              replay=lambda rec: {"kind": "client", "case": ({"Seed": rec["seed"], "ID": rec["id"]} if rec["kind"] == "data" else None),
                                  "init": rec.get("init"), "ops": [[s["op"], s["nilarg"], s["vals"], s["flag"]] for s in rec.get("steps", [])]})
    ctx.extra["domains"] = [meta]
    ctx.add_samples(shards, 1, lambda r: r["kind"] == "ann" and len(r["steps"]) == 2)
    ctx.add_samples(shards, 1, lambda r: r["kind"] == "data")
    ctx.assumptions.append("C19 is mostly about per-field data fidelity, which TLC cannot enumerate: operation sequences over the annotation "
                           "algebra are enumerated (model and real helpers), whole-object fidelity (conversion, hijack round trip, defaulting "
                           "idempotence) is SAMPLED over seeded generated objects of the modelled schema and judged with semantic deep equality")


def replay_watch(prop, inv, rp, wd):
    if rp.get("storm"):
        # concurrent Stop calls: the window is a few instructions wide, so the replay runs several times as many rounds
        vlib.run_harness(["watch", "--depth", "0", "--storm", str(int(rp["storm"]) * 5), "--out", os.path.join(wd, "rec")])
        sh = os.path.join(wd, "rec", "shard-01.ndjson")
    else:
        vlib.run_harness(["watch", "--ops", json.dumps(rp["ops"]), "--out", os.path.join(wd, "rec")])
        sh = os.path.join(wd, "rec", "shard-00.ndjson")
    c = Ctx.__new__(Ctx)
    r = Ctx._tlc_with_cfg(c, "TraceWatch", "replay.cfg", WATCH_CFG + "INVARIANT %s\n" % inv, os.path.join(wd, "tlc"), 1, 600, "2g", True, env={"VERIF_TRACE": sh})
    if r.errors:
        return False, "replay could not be evaluated: " + r.errors[0][:300]
    return any(v[0] == inv for v in r.violations), "invariant holds on replay"


REPLAYERS["watch"] = replay_watch
WATCH_CFG = "CONSTANTS Kinds = {\"Added\"}\n MaxLen = 1\n MaxStops = 1\nINIT TInit\nNEXT TNext\nCHECK_DEADLOCK FALSE\n"


def check_C20(ctx):
    q = ctx.quick
    mc = ("CONSTANTS Kinds = {\"Added\", \"Modified\", \"Deleted\", \"Bookmark\", \"Error\"}\n MaxLen = %d\n MaxStops = 2\n"
          "SPECIFICATION WSpec\nCHECK_DEADLOCK FALSE\nINVARIANT InOrder\nINVARIANT NoLoss\nINVARIANT StopsSource\nINVARIANT StopOnce\nPROPERTY CleansUp\n")
    ctx.design("Watch", mc % (3 if q else 4), "relay-3-processes")
    d, shards, meta = ctx.harness(["watch", "--depth", "4" if q else "6", "--storm", "30000" if q else "400000"], "schedules", timeout=3400)
    ctx.trace("TraceWatch", WATCH_CFG + "INVARIANT Conf\nINVARIANT P_C20\n", shards, "schedules", {"P_C20"},
              replay=lambda rec: {"kind": "watch", "ops": rec["ops"], "storm": rec["storm"]["rounds"] if "storm" in rec else 0})
    ctx.exhaustive = True
    ctx.extra["domains"] = [meta]
    ctx.add_samples(shards, 2, lambda r: "stop" in r["ops"] and any(o.startswith("send:Error") for o in r["ops"]) and len(r["ops"]) >= 4)
    ctx.assumptions.append("every step of a schedule is a rendezvous with a deadline (150 ms); a relay that has not closed the result channel "
                           "300 ms after Stop is counted as leaked; relay panics are recorded through apimachinery's panic handlers instead of "
                           "killing the harness process")


def check_C06(ctx):
    q = ctx.quick
    # the label of the revision a pod is built from, with several revisions in flight (current != update, partitions)
    shp, _ = snap_trace(ctx, "pods-3ord", "pods", 2, 3, 5, 30000 if q else 500000, ["P_C06"], 51)
    ctx.design("MCSnapshot", mc_snapshot_cfg(1, 2, 5, False, ["I_C06"]), "pods-1ord")
    # a set name with dots and digits ("db.v1.2"): identity is "<set>-<ordinal>" for every admitted name
    snap_trace(ctx, "pods-dotted", "pods-dotted", 2, 3, 5, 15000 if q else 300000, ["P_C06"], 52)
    # (147 M points since the claim cache may lag: sampled in both tiers)
    sh1, _ = snap_trace(ctx, "claims", "claims", 2, 2, 5, 80000 if q else 1500000, ["P_C06"], 50)
    ctx.add_samples(sh1, 2, has_call("create", "persistentvolumeclaims"))
    # the history clause: over whole behaviours (scale-in, scale-out, restarts, lagging claim cache) claims are created
    # before their pod, once, and never removed or replaced
    cluster_check(ctx, ["B_C06"], ["P_C06"], invariants=["ClaimsSane"], properties=["ClaimsKept", "ClaimsFirst", "Converges"],
                  faults=0 if q else 1, fails=0, edits=1, scale=0.5, claims=1)


# =================================================================================
# the cluster engine: Cluster.tla (design), SimCluster (behaviours), harness sim, TraceCluster
# =================================================================================

def cluster_consts(maxord, maxrep, tmpls, edits, faults, fails, maxpos, mode, extra="", claims="{0}", queue=False, bare=False, narrow=False):
    # bare: also sets of type RollingUpdate without the rollingUpdate block (not a defaulted spec).  Only for simulation:
    # with a set cache that never catches up such a set re-creates a pod at the old revision again and again, so the
    # exhaustive state space (which counts pod incarnations) is infinite although every fair behaviour converges.
    strats = '{"RollingUpdate", "OnDelete", "RollingUpdateBare"}' if bare else '{"RollingUpdate", "OnDelete"}'
    if narrow:      # OrderedReady + RollingUpdate only (keeps a larger configuration within the hour)
        strats = '{"RollingUpdate"}'
    pols = '{"OrderedReady"}' if narrow else '{"OrderedReady", "Parallel"}'
    return (("CONSTANTS MaxOrd = %d\n MaxRep = %d\n Tmpls = {%s}\n Policies = " + pols + "\n"
            " Strats = " + strats.replace("%", "%%") + "\n Edits = %d\n Faults = %d\n Fails = %d\n MaxFaultPos = %d\n QueueDriven = %s\n ClaimCounts = %s\n InitMode = \"%s\"\n%s")
            % (maxord, maxrep, ", ".join('"%s"' % t for t in tmpls), edits, faults, fails, maxpos, "TRUE" if queue else "FALSE", claims, mode, extra))


def extract_behaviours(text, limit):
    seen, out = set(), []
    for m in re.finditer(r'<<\s*"BEHAVIOUR",\s*("(?:[^"\\]|\\.)*")\s*>>', text, re.S):
        js = json.loads(m.group(1))
        if js not in seen:
            seen.add(js)
            out.append(js)
            if len(out) >= limit:
                break
    return out


def cluster_check(ctx, beh_invs, rec_invs, invariants, properties, faults=0, fails=0, edits=1, scale=1.0, mode="any", claims=0, sim_claims=None, queue=False):
    """design: exhaustive TLC run of Cluster.tla (small constants, temporal properties under fairness);
    binding: behaviours from TLC's simulator and from the seeded random driver are executed on the real
    controller; TraceCluster validates each behaviour, TraceSnap each of its reconciles."""
    q = ctx.quick
    cc = {0: "{0}", 1: "{1}", 2: "{0, 1}"}[claims]
    sim_claims = claims if sim_claims is None else sim_claims      # the replayed behaviours may mix sets with and without claims
    scc = {0: "{0}", 1: "{1}", 2: "{0, 1}"}[sim_claims]
    body = "SPECIFICATION Spec\nVIEW View\nCHECK_DEADLOCK FALSE\n" + "".join("INVARIANT %s\n" % i for i in invariants) + \
        "".join("PROPERTY %s\n" % p for p in properties)
    if mode == "migration":
        ctx.design("Cluster", cluster_consts(0, 1, ["t0", "t1"], 0, 0, 0, 3, "migration") + body, "migration-1ord", heap="16g", timeout=3400)
        if not q:
            # (2 ordinals with both policies and strategies: > 8 M states, does not finish within the hour; measured 1.8 M / 12 min narrow)
            ctx.design("Cluster", cluster_consts(1, 1, ["t0", "t1"], 0, 0, 0, 3, "migration", narrow=True) + body, "migration-2ord-ordered-ru", heap="24g", timeout=3400)
    else:
        ctx.design("Cluster", cluster_consts(1, 1, ["t0", "t1"], edits, faults, fails, 3, "empty", claims=cc, queue=queue) + body, "cluster-2ord" + ("-queue" if queue else ""), heap="16g")
        if not q:
            # measured: (2 ordinals, replicas <= 2, 1 edit) 200 k states / 50 s; (replicas <= 1, 2 edits) 3 M states / 10 min;
            # kubelet-side trouble (Fails) or a fault on top of either does not finish within the hour and is left to simulation
            if faults == 0 or claims == 0:      # (with one fault: 503 k states / 6 min)
                ctx.design("Cluster", cluster_consts(1, 2, ["t0", "t1"], 1, faults, 0, 3, "empty", claims=cc, queue=queue) + body, "cluster-2ord-rep2" + ("-queue" if queue else ""), heap="24g", timeout=3400)
            if faults == 0 and claims == 0:
                ctx.design("Cluster", cluster_consts(1, 1, ["t0", "t1"], 2, 0, 0, 3, "empty", claims=cc, queue=queue) + body, "cluster-2ord-2edits" + ("-queue" if queue else ""), heap="24g", timeout=3400)
    # behaviours from the model (direction A)
    ntlc, nrand, depth = (int(120 * scale), int(120 * scale), 24) if q else (int(1500 * scale), int(3000 * scale), 30)
    wd = os.path.join(ctx.outdir, "simulate")
    simconsts = cluster_consts(2, 3, ["t0", "t1", "t2"], 3, 2, 2, 5, "any", " Depth = %d\n" % depth, claims=scc, queue=queue, bare=True) if mode == "any" else \
        cluster_consts(2, 3, ["t0", "t1", "t2"], 0, 1, 1, 5, "migration", " Depth = %d\n" % depth)
    simcfg = simconsts + \
        "INIT SimInit\nNEXT SimNext\nINVARIANT Emit\nINVARIANT StatusTruth\nINVARIANT QuietPods\nCHECK_DEADLOCK FALSE\n"
    t0 = time.time()
    r = ctx._tlc_with_cfg("SimCluster", "gen_sim.cfg", simcfg, wd, 4, 1200, "4g", False,
                          simulate=["-simulate", "num=%d" % max(1, ntlc // 16), "-depth", str(depth + 2), "-seed", str(vlib.seed())])
    if r.errors or r.violations:
        raise Infra("SimCluster: the model violates its own invariants in simulation: %s %s\n%s" %
                    ([v[0] for v in r.violations][:3], r.errors[:1], r.out[-2000:]))
    behs = extract_behaviours(r.out, ntlc)
    if len(behs) < min(20, ntlc):
        raise Infra("SimCluster produced only %d behaviours\n%s" % (len(behs), r.out[-1500:]))
    bf = os.path.join(wd, "behaviours.ndjson")
    with open(bf, "w") as f:
        f.write("\n".join(behs) + "\n")
    m = re.search(r"(\d+) states checked", r.out)
    if m:
        ctx.states += int(m.group(1))
        ctx.transitions += int(m.group(1))
    log("  simul. %-28s %d behaviours of depth %d from TLC (%s states checked), %.1fs" % ("SimCluster", len(behs), depth, m.group(1) if m else "?", time.time() - t0))
    d, shards, meta = ctx.harness(["sim", "--in", bf, "--random", str(nrand), "--maxord", "2", "--depth", str(depth),
                                   "--seed", str(vlib.seed()), "--workers", str(vlib.NCPU), "--claims", str(sim_claims)] +
                                  (["--migration"] if mode == "migration" else []) + (["--queue"] if queue else []), "behaviours")
    tcfg = open(os.path.join(vlib.SPEC, "Trace_Cluster.cfg")).read() + "INVARIANT B_Conf\n" + "".join("INVARIANT %s\n" % i for i in beh_invs)
    if queue:
        tcfg = tcfg.replace("QueueDriven = FALSE", "QueueDriven = TRUE")
    ctx.trace("TraceCluster", tcfg, shards, "behaviours", set(beh_invs), conf_inv="B_Conf",
              replay=lambda rec: {"kind": "beh", "id": rec.get("id"), "queue": queue, "slow": bool(rec.get("slowTail")),
                                  "acts": [s["act"] for s in rec["steps"]]}, heap="4g")
    # every reconcile of every behaviour, judged like the single reconciles of the snapshot engine
    recs = sorted(glob.glob(os.path.join(d, "recs-*.ndjson")))
    recs = [x for x in recs if os.path.getsize(x) > 0]
    ctx.trace("TraceSnap", trace_snap_cfg(rec_invs), recs, "behaviour-reconciles", set(rec_invs),
              replay=lambda rec: {"kind": "rec", "note": "reconcile inside a behaviour; see the behaviour shard"})
    ctx.extra.setdefault("behaviours", []).append(meta)
    for rec in vlib.sample_records(shards, 1):
        slim = {"id": rec["id"], "acts": [s["act"] for s in rec["steps"]], "rounds_to_fixed_point": rec["rounds"], "quiet": rec["quiet"],
                "final": rec["final"]}
        if len(ctx.samples) < 6:
            ctx.samples.append(slim)


def replay_beh(prop, inv, rp, wd):
    bf = os.path.join(wd, "beh.ndjson")
    with open(bf, "w") as f:
        f.write(json.dumps({"acts": rp["acts"]}) + "\n")
    vlib.run_harness(["sim", "--in", bf, "--random", "0", "--workers", "1", "--out", os.path.join(wd, "rec"),
                      "--tail", "slow" if rp.get("slow") else "fast"] + (["--queue"] if rp.get("queue") else []))
    sh = os.path.join(wd, "rec", "shard-00.ndjson")
    c = Ctx.__new__(Ctx)
    tcfg = open(os.path.join(vlib.SPEC, "Trace_Cluster.cfg")).read() + "INVARIANT %s\n" % inv
    if rp.get("queue"):
        tcfg = tcfg.replace("QueueDriven = FALSE", "QueueDriven = TRUE")
    r = Ctx._tlc_with_cfg(c, "TraceCluster", "replay.cfg", tcfg, os.path.join(wd, "tlc"), 1, 600, "2g", True, env={"VERIF_TRACE": sh})
    if r.errors:
        return False, "replay could not be evaluated: " + r.errors[0][:300]
    return any(v[0] == inv for v in r.violations), "invariant %s holds on replay" % inv


REPLAYERS["beh"] = replay_beh


def check_C02(ctx):
    q = ctx.quick
    cluster_check(ctx, ["B_C02"], ["P_C03", "P_C04", "P_C02L"], invariants=["StatusTruth", "QuietPods"], properties=["Converges"], faults=0, fails=0, sim_claims=2)
    # the step argument of convergence on settled snapshots (nobody is waiting for any pod): a roll-out with work left
    # takes a pod down, whatever mix of revisions the pods are at (393 k points; enumerated in the thorough tier)
    snap_trace(ctx, "pods-settled", "pods-settled", 2, 3, 5, 40000 if q else 0, ["P_C02L", "P_C02S", "P_C03", "P_C04"], 40)
    ctx.assumptions.append("liveness is established on the model under weak fairness (TLC, exhaustive for 2 ordinals) and, on the code, as "
                           "bounded convergence of a fair schedule from every replayed and random behaviour")


# =================================================================================
# C01 - ordinals
# =================================================================================

def replay_ord(prop, inv, rp, wd):
    vlib.run_harness(["ordinals", "--case", json.dumps({"R": rp["r"], "Ann": rp["ann"]}), "--out", os.path.join(wd, "rec")])
    sh = os.path.join(wd, "rec", "shard-00.ndjson")
    c = Ctx.__new__(Ctx)
    cfg = "INIT TInit\nNEXT TNext\nCHECK_DEADLOCK FALSE\nINVARIANT %s\n" % inv
    # replay re-parses the annotation itself, so 'want' is recomputed by the harness
    r = Ctx._tlc_with_cfg(c, "TraceOrdinals", "replay.cfg", cfg, os.path.join(wd, "tlc"), 1, 600, "2g", True, env={"VERIF_TRACE": sh})
    if r.errors:
        return False, "replay could not be evaluated: " + r.errors[0][:300]
    return any(v[0] == inv for v in r.violations), "invariant holds on replay"


REPLAYERS["ord"] = replay_ord


def check_C01(ctx):
    q = ctx.quick
    maxr, lo, hi = (4, -2, 6) if q else (6, -3, 9)
    ctx.design("MCOrdinals", "CONSTANTS MaxR = %d\n NegLo = %d\n Hi = %d\nINIT Init\nNEXT Next\nCHECK_DEADLOCK FALSE\nINVARIANT Inv\n" % (maxr, -lo, hi if q else 7),
               "ordinals")
    # unbounded in the slot VALUES (and in r): inductive invariant of the slot walk, Apalache; lists of up to 10 slots
    ctx.apalache("OrdinalsInd", [("Init", "IndInv", 0), ("IndInit", "IndInv", 1), ("IndInit", "Final", 0)], "slot-walk")
    args = ["ordinals", "--maxr", str(maxr), "--lo", str(lo), "--hi", str(hi), "--nrand", "40" if q else "2000",
            "--ctl-every", "3" if q else "2", "--seed", str(vlib.seed()), "--workers", str(vlib.NCPU)]
    d, shards, meta = ctx.harness(args, "helpers+controller")
    cfg = "INIT TInit\nNEXT TNext\nCHECK_DEADLOCK FALSE\nINVARIANT Conf\nINVARIANT P_C01\n"
    ctx.trace("TraceOrdinals", cfg, shards, "ordinals", {"P_C01"},
              replay=lambda rec: {"kind": "ord", "r": rec["r"], "ann": rec["ann"]})
    ctx.exhaustive = True
    ctx.extra["domains"] = [meta]
    ctx.add_samples(shards, 2, lambda r: r["ctl"] and len(r["want"]) > 1 and r["r"] > 1)
    ctx.add_samples(shards, 1, lambda r: r["cls"] == "malformed")
    ctx.assumptions.append("int32 extremes and arbitrary int32 slot sets are sampled (seeded), small ranges are enumerated completely")
    # over histories: an edit of nothing but the delete-slots annotation reaches the controller (work queue only, no resync)
    # and the pods end up at exactly the desired ordinals
    cluster_check(ctx, ["B_C02", "B_C16"], ["P_C03", "P_C04"], invariants=[], properties=["Converges"], scale=0.5, queue=True)


CHECKS = {
    "C01": check_C01, "C02": check_C02, "C08": check_C08, "C16": check_C16, "C17": check_C17, "C18": check_C18, "C19": check_C19, "C20": check_C20, "C06": check_C06, "C09": check_C09, "C10": check_C10, "C11": check_C11, "C13": check_C13, "C15": check_C15,
    "C03": check_C03, "C04": check_C04, "C05": check_C05, "C07": check_C07, "C12": check_C12, "C14": check_C14,
}
