#!/usr/bin/env python3
"""Regenerates /verif/MANIFEST.json from the table below (one entry per claimed property)."""
import json
import os
import subprocess
import sys

sys.path.insert(0, os.path.dirname(os.path.abspath(__file__)))
import props

VERIF = os.path.dirname(os.path.dirname(os.path.abspath(__file__)))

ENGINE_NOTE = ("Trusted: TLC and the Json/IOUtils community modules; the harness' in-memory API server (MiniAPI) and its "
               "projection of real objects to abstract records; small-scope bounds (ordinals 0..3, 3 revisions). "
               "Exhaustive on the model within the bounds; the real controller is run on sampled (quick) or enumerated "
               "(thorough, smallest domain) snapshots and every recorded reconcile is judged by the TLA+ predicate.")

TABLE = {
    "C03": dict(text="TLC checks DeleteJustified (Props.tla) on the model's Sync() for every snapshot of a bounded domain, and on the "
                     "call lists recorded from the real sync() for every enumerated/sampled snapshot; zero drift ties the two.",
                ref="DESIGN.md §6 C03", tech="TLA+ model checking (TLC) + trace validation of recorded real reconciles"),
    "C04": dict(text="TLC checks CreateJustified on the model for every snapshot of the bounded domain and on the recorded real call lists.",
                ref="DESIGN.md §6 C04", tech="TLA+ model checking (TLC) + trace validation of recorded real reconciles"),
    "C05": dict(text="TLC checks the OrderedReady discipline predicate (one ordinal per reconcile, healthy predecessors, top-down scale-in, "
                     "update only when nothing else is pending) on model and on recorded real reconciles.",
                ref="DESIGN.md §6 C05", tech="TLA+ model checking (TLC) + trace validation of recorded real reconciles"),
    "C07": dict(text="TLC checks the rolling-update predicate (partition, highest-first, one at a time, creation revision, OnDelete) "
                     "on model and on recorded real reconciles.",
                ref="DESIGN.md §6 C07", tech="TLA+ model checking (TLC) + trace validation of recorded real reconciles"),
    "C12": dict(text="TLC checks every recorded status write of the real controller against the status predicate (bounds, generation, "
                     "currentRevision change rule, exact total) and the same predicate on the model for the whole bounded domain.",
                ref="DESIGN.md §6 C12", tech="TLA+ model checking (TLC) + trace validation of recorded real reconciles"),
    "C14": dict(text="TLC checks the Parallel-policy equalities (all creates and all condemned deletes in one reconcile) on model and on "
                     "recorded real reconciles.",
                ref="DESIGN.md §6 C14", tech="TLA+ model checking (TLC) + trace validation of recorded real reconciles"),
}

NOT_YET = "check not built yet in this session (planned: see DESIGN.md §6); nothing is claimed for it"


def main():
    ids = [json.loads(l)["id"] for l in open(os.path.join(VERIF, "properties.jsonl"))]
    commits = subprocess.run(["git", "-C", "/repo", "log", "--format=%H %s"], stdout=subprocess.PIPE, text=True).stdout.strip().split("\n")
    hook_commits = [c.split()[0] for c in commits if c.split(" ", 1)[1].startswith("verif:")]
    checks, na = [], []
    for pid in ids:
        if pid in TABLE and pid in props.CHECKS:
            t = TABLE[pid]
            checks.append({
                "property_id": pid,
                "quick_cmd": "bin/check %s quick" % pid,
                "thorough_cmd": "bin/check %s thorough" % pid,
                "evidence_file": "/verif/evidence/%s.json" % pid,
                "replay_cmd_template": "bin/replay {path}",
                "engine": "tla-trace",
                "level_claimed": {"category": t.get("cat", "model_checking"), "text": t["text"], "design_ref": t["ref"]},
                "level_note": t.get("note", ENGINE_NOTE),
                "technique": t["tech"],
            })
        else:
            na.append({"property_id": pid, "reason": TABLE.get(pid, {}).get("na", NOT_YET)})
    m = {
        "version": 1,
        "setup_cmd": "bin/setup",
        "hooks": {
            "guard": "verif",
            "enable": "go build -tags verif (the harness module in /verif/harness replaces the repository modules by /repo)",
            "baseline_off_cmd": "bin/baseline-off",
            "source_commits": hook_commits,
            "add_only": True,
        },
        "engines": [{
            "name": "tla-trace",
            "path": "/verif/bin/check",
            "serves_properties": [c["property_id"] for c in checks],
            "kind_free_text": "TLA+ specifications in spec/ checked by TLC; Go harness in harness/ drives the real code "
                              "(built with -tags verif from /repo) and records ndjson traces that TLC validates against the "
                              "specification and the property predicates",
        }],
        "checks": checks,
        "not_applicable": na,
        "notes": "All verdicts come from TLA+ predicates evaluated by TLC, on the model (design runs) and on executions "
                 "recorded from the real code (trace runs). See DESIGN.md.",
    }
    with open(os.path.join(VERIF, "MANIFEST.json"), "w") as f:
        json.dump(m, f, indent=1)
        f.write("\n")
    print("MANIFEST.json: %d checks, %d not claimed" % (len(checks), len(na)))


if __name__ == "__main__":
    main()
