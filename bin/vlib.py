#!/usr/bin/env python3
"""Shared machinery of the checks: build the harness from /repo's working tree, run TLC
(design configurations and trace validation), collect violations, apply known findings,
write evidence.  Python standard library only."""
import concurrent.futures as cf
import hashlib
import json
import os
import re
import shutil
import subprocess
import sys
import time

VERIF = os.path.dirname(os.path.dirname(os.path.abspath(__file__)))
REPO = os.environ.get("VERIF_REPO", "/repo")
SPEC = os.path.join(VERIF, "spec")
# VERIF_REPO lets the same checks run against a scratch worktree (mutation testing) without
# touching /repo; binaries, scratch output and evidence then live under a suffix of their own.
_SFX = "" if REPO == "/repo" else "-" + hashlib.sha1(REPO.encode()).hexdigest()[:8]
OUT = os.path.join(VERIF, "out" + _SFX)
BUILD = os.path.join(VERIF, ".build")
ASTH = os.path.join(BUILD, "asth" + _SFX)
EVID = os.path.join(VERIF, "evidence") if not _SFX else os.path.join(OUT, "evidence")
NCPU = os.cpu_count() or 4

GOENV = dict(os.environ, GOFLAGS="-mod=mod", GOPROXY="off", GOSUMDB="off", GOTOOLCHAIN="local",
             GONOSUMDB="*", GONOSUMCHECK="1", GOFLAGS_EXTRA="")


class Infra(Exception):
    """Something other than a verdict went wrong (exit 2)."""


def log(*a):
    print(*a, flush=True)


def seed():
    try:
        return int(os.environ.get("VERIF_SEED", "1"))
    except ValueError:
        return 1


def build_harness():
    """Always rebuild: the harness module replaces the repository modules by /repo, so the
    binary is made from /repo's CURRENT working tree with the verif hooks enabled."""
    os.makedirs(BUILD, exist_ok=True)
    hdir = os.path.join(VERIF, "harness")
    if _SFX:
        src, hdir = hdir, os.path.join(BUILD, "harness" + _SFX)
        shutil.rmtree(hdir, ignore_errors=True)
        shutil.copytree(src, hdir)
        gm = open(os.path.join(hdir, "go.mod")).read().replace("=> /repo/client", "=> %s/client" % REPO).replace("=> /repo\n", "=> %s\n" % REPO)
        open(os.path.join(hdir, "go.mod"), "w").write(gm)
    # go.sum of the harness starts from the repository's (no network: nothing else can be fetched)
    with open(os.path.join(hdir, "go.sum"), "w") as f:
        f.write(open(os.path.join(REPO, "go.sum")).read())
    t0 = time.time()
    p = subprocess.run(["go", "build", "-tags", "verif", "-o", ASTH, "."], cwd=hdir, env=GOENV,
                       stdout=subprocess.PIPE, stderr=subprocess.STDOUT, text=True)
    if p.returncode != 0:
        raise Infra("harness build failed (does /repo compile with -tags verif?):\n" + p.stdout[-4000:])
    return time.time() - t0


def run_harness(args, timeout=3600, env=None):
    p = subprocess.run([ASTH] + args, stdout=subprocess.PIPE, stderr=subprocess.PIPE, text=True, timeout=timeout,
                       env=dict(os.environ, **(env or {})))
    if p.returncode != 0:
        raise Infra("harness %s failed (exit %d):\n%s\n%s" % (args[:3], p.returncode, p.stdout[-3000:], p.stderr[-3000:]))
    return p.stdout


def fresh_dir(*parts):
    d = os.path.join(OUT, *parts)
    shutil.rmtree(d, ignore_errors=True)
    os.makedirs(d)
    return d


# ------------------------------------------------------------------------------- TLC

TLC_JAVA = ["java", "-XX:+UseSerialGC", "-Xss64m"]
TLC_CP = "/opt/veriftools/tla/tla2tools.jar:/opt/veriftools/tla/CommunityModules-deps.jar"

RE_GEN = re.compile(r"(\d+) states generated, (\d+) distinct states found")
RE_INV = re.compile(r"Error: Invariant (\S+) is violated")
RE_PROP = re.compile(r"Error: (?:Temporal properties were violated|Action property (\S+) is violated)")


class TLCResult:
    def __init__(self):
        self.generated = 0
        self.distinct = 0
        self.violations = []   # (invariant name, state text)
        self.errors = []       # evaluation / parse errors
        self.temporal = False
        self.out = ""
        self.wall = 0.0
        self.ok_finish = False


def run_tlc(module, cfg, workdir, env=None, workers=4, timeout=1800, heap="4g", cont=True, extra=None, simulate=None):
    """Run TLC on spec/<module>.tla with spec/<cfg> inside a scratch copy of spec/."""
    os.makedirs(workdir, exist_ok=True)
    for f in os.listdir(SPEC):
        if f.endswith(".tla") or f.endswith(".cfg"):
            shutil.copyfile(os.path.join(SPEC, f), os.path.join(workdir, f))
    cmd = ["timeout", str(timeout)] + TLC_JAVA + ["-Xmx" + heap, "-cp", TLC_CP, "tlc2.TLC", "-workers", str(workers),
           "-metadir", os.path.join(workdir, "md"), "-noGenerateSpecTE", "-config", cfg]
    if cont:
        cmd.append("-continue")
    if simulate:
        cmd += simulate
    if extra:
        cmd += extra
    cmd.append(module + ".tla")
    t0 = time.time()
    p = subprocess.run(cmd, cwd=workdir, env=dict(os.environ, **(env or {})), stdout=subprocess.PIPE,
                       stderr=subprocess.STDOUT, text=True)
    r = TLCResult()
    r.wall = time.time() - t0
    r.out = p.stdout
    if p.returncode == 124:
        r.errors.append("timeout after %ds" % timeout)
    m = None
    for m in RE_GEN.finditer(p.stdout):
        pass
    if m:
        r.generated, r.distinct = int(m.group(1)), int(m.group(2))
    lines = p.stdout.split("\n")
    k = 0
    while k < len(lines):
        ln = lines[k]
        mi = RE_INV.search(ln)
        if mi:
            st = []
            j = k + 1
            while j < len(lines) and lines[j].strip() != "" and not lines[j].startswith("Error:"):
                st.append(lines[j])
                j += 1
            r.violations.append((mi.group(1), "\n".join(st)))
            k = j
            continue
        if RE_PROP.search(ln):
            r.temporal = True
            r.violations.append((RE_PROP.search(ln).group(1) or "temporal", ""))
        elif ln.startswith("Error:") and "Invariant" not in ln:
            ctx = "\n".join(lines[k:k + 12])
            if "Deadlock reached" in ln or "behavior up to this point" in ln:
                pass
            else:
                r.errors.append(ctx)
        k += 1
    r.ok_finish = ("Model checking completed" in p.stdout) or ("Finished in" in p.stdout and simulate is not None)
    if not r.ok_finish and not r.errors and not r.violations:
        r.errors.append("TLC did not finish normally:\n" + p.stdout[-2000:])
    return r


def tlc_design(module, cfg, tag, workers=None, timeout=1800, heap="8g", env=None, cont=False):
    """A design run: the model itself must satisfy its properties; otherwise the model is
    wrong (my bug) and no verdict about the repository can be given."""
    wd = os.path.join(OUT, tag)
    shutil.rmtree(wd, ignore_errors=True)
    r = run_tlc(module, cfg, wd, env=env, workers=workers or NCPU, timeout=timeout, heap=heap, cont=cont)
    if r.errors or r.violations:
        raise Infra("design configuration %s/%s does not pass: %s %s\n%s" %
                    (module, cfg, [v[0] for v in r.violations][:5], r.errors[:2], r.out[-1500:]))
    return r


def trace_check(module, cfg, shards, tag, par=None, heap="3g", timeout=1800, envname="VERIF_TRACE"):
    """Validate every shard (ndjson) with its own TLC process, a few in parallel.
    Returns (results per shard, list of (shard, invariant, i))."""
    par = par or max(1, NCPU // 2)
    results = {}
    viol = []

    def one(sh):
        wd = os.path.join(OUT, tag, os.path.basename(sh) + ".tlc")
        shutil.rmtree(wd, ignore_errors=True)
        return sh, run_tlc(module, cfg, wd, env={envname: sh}, workers=2, timeout=timeout, heap=heap)

    with cf.ThreadPoolExecutor(max_workers=par) as ex:
        for sh, r in ex.map(one, shards):
            results[sh] = r
            if r.errors:
                raise Infra("trace validation of %s failed to run:\n%s" % (sh, "\n".join(r.errors)[:3000]))
            for inv, st in r.violations:
                m = re.search(r"\bi = (\d+)", st)
                viol.append((sh, inv, int(m.group(1)) if m else -1))
    return results, viol


def read_record(shard, i):
    with open(shard) as f:
        for k, line in enumerate(f, 1):
            if k == i:
                return json.loads(line)
    return None


def sample_records(shards, n=3, pred=None):
    out = []
    for sh in shards:
        with open(sh) as f:
            for line in f:
                rec = json.loads(line)
                if pred is None or pred(rec):
                    out.append(rec)
                    break
        if len(out) >= n:
            break
    return out


# ------------------------------------------------------------------------------- findings

def load_findings():
    p = os.path.join(VERIF, "known-findings.json")
    if not os.path.exists(p):
        return {"open": [], "fixed": []}
    return json.load(open(p))


def match_finding(prop, signature):
    """An open finding suppresses only violations whose signature matches its pattern."""
    for f in load_findings().get("open", []):
        if f["property"] == prop and re.search(f["signature"], signature):
            return f
    return None


# ------------------------------------------------------------------------------- evidence

def write_evidence(prop, tier, coverage, wall, violations=0, assumptions=None, level="model_checking"):
    os.makedirs(EVID, exist_ok=True)
    ev = {"property_id": prop, "tier": tier, "seed": seed(), "level": level, "coverage": coverage,
          "assumptions": assumptions or [], "wall_s": round(wall, 2), "violations": violations}
    with open(os.path.join(EVID, prop + ".json"), "w") as f:
        json.dump(ev, f, indent=1, sort_keys=True)
        f.write("\n")


def repo_fingerprint():
    h = hashlib.sha256()
    for root, dirs, files in os.walk(REPO):
        dirs[:] = sorted(d for d in dirs if d not in (".git", "vendor", "output", "_output"))
        for fn in sorted(files):
            if fn.endswith(".go") or fn in ("go.mod", "go.sum"):
                p = os.path.join(root, fn)
                h.update(p.encode())
                h.update(open(p, "rb").read())
    return h.hexdigest()[:16]
