--------------------------------- MODULE TraceSnap ---------------------------------
(***************************************************************************************)
(* Trace validation of single reconciles recorded from the REAL controller.            *)
(* Every line of the ndjson file named by the environment variable VERIF_TRACE is one  *)
(* reconcile: the projected snapshot it read, the ordered API calls it issued and its  *)
(* return value.  Each record becomes one initial state (i = its index); the           *)
(* invariants are                                                                      *)
(*   Conf     the real call list and result equal the specification's Sync(snapshot)   *)
(*            (a failure is DRIFT: the model does not describe the code)               *)
(*   Cxx      the property predicates of Props.tla evaluated on the REAL calls         *)
(*            (a failure is a VIOLATION of the property by the implementation)         *)
(***************************************************************************************)
EXTENDS Props, Json, IOUtils

Recs == ndJsonDeserialize(IOEnv.VERIF_TRACE)

VARIABLE i

ToSetRec(a) ==
  [name |-> a[1], cached |-> a[2], replicas |-> a[3], slots |-> {a[4][k] : k \in 1..Len(a[4])},
   policy |-> a[5], strat |-> a[6], ruBlock |-> a[7], partPresent |-> a[8], part |-> a[9], tmpl |-> a[10],
   paused |-> a[11], deleting |-> a[12], histLimit |-> a[13], selectorOK |-> a[14], gen |-> a[15],
   status |-> [obsGen |-> a[16][1], replicas |-> a[16][2], ready |-> a[16][3], current |-> a[16][4],
               updated |-> a[16][5], collisions |-> a[16][6], curRev |-> a[17][1], updRev |-> a[17][2]],
   claims |-> a[18]]

ToPod(a) == [new |-> FALSE, name |-> a[1], ord |-> a[2], member |-> a[3], match |-> a[4], owner |-> a[5],
             phase |-> a[6], ready |-> a[7], term |-> a[8], rev |-> a[9], identOK |-> a[10], storOK |-> a[11], uidOK |-> a[12]]

ToRev(a) == [name |-> a[1], tmpl |-> a[2], num |-> a[3], created |-> a[4], owner |-> a[5],
             marker |-> a[6], sel |-> a[7], rank |-> a[8]]

ToSn(r) == [set   |-> ToSetRec(r.set),
            pods  |-> [k \in 1..Len(r.pods) |-> ToPod(r.pods[k])],
            revs  |-> [k \in 1..Len(r.revs) |-> ToRev(r.revs[k])],
            pvcs  |-> {r.pvcs[k] : k \in 1..Len(r.pvcs)},
            fresh |-> [exists |-> r.fresh[1], sameUid |-> r.fresh[2], deleting |-> r.fresh[3], rvSame |-> r.fresh[4]],
            apods |-> [k \in 1..Len(r.apods) |-> [name |-> r.apods[k][1], imm |-> r.apods[k][2]]],
            apvcs |-> {r.apvcs[k] : k \in 1..Len(r.apvcs)},
            faults |-> [k \in 1..Len(r.faults) |-> [k |-> r.faults[k][1], kind |-> r.faults[k][2], applied |-> r.faults[k][3],
                                                   die |-> r.faults[k][4], list |-> r.faults[k][5],
                                                   evict |-> IF Len(r.faults[k]) >= 6 THEN r.faults[k][6] ELSE ""]],
            cacheIntact |-> r.cacheIntact]

Sn    == ToSn(Recs[i].sn)
Calls == Recs[i].calls
Rslt  == Recs[i].res

TInit == i \in 1..Len(Recs)
TNext == UNCHANGED i

\* conformance: compare call by call; the reason the model attaches to a pod delete is not observable
NormCall(c) == <<c[1], c[2], c[3], IF c[1] = "delete" THEN "" ELSE c[4], c[5], c[6], IF c[1] = "create" /\ c[2] = "pods" THEN <<c[7][1]>>
                                                                        ELSE IF c[2] = "statefulsets/status" THEN <<c[7][1], c[7][2]>> ELSE c[7]>>
Norm(s) == [k \in 1..Len(s) |-> NormCall(s[k])]
\* A process death while pods are being claimed: the pods are visited in cache order, which is unspecified, so WHICH
\* patches went out before the death is not determined; they must be patches the failure-free reconcile issues.
Key(c) == <<c[1], c[2], c[3], c[4]>>
DiedClaiming == Rslt = "died" /\ \E k \in 1..Len(Calls) : IsDied(Calls[k]) /\ Calls[k][1] = "patch" /\ Calls[k][2] = "pods"
Conf == LET m == Sync(Sn) IN
        IF DiedClaiming
        THEN /\ m.res = "died"
             /\ {Key(Calls[k]) : k \in 1..Len(Calls)} \subseteq {Key(c) : c \in SeqToSet(Sync([Sn EXCEPT !.faults = <<>>]).calls)}
        ELSE Norm(m.calls) = Norm(Calls) /\ m.res = Rslt

P_C02L == C02Local(Sn, Calls, Rslt)
P_C02S == C02LocalScale(Sn, Calls, Rslt)
P_C03 == C03(Sn, Calls)
P_C04 == C04(Sn, Calls)
P_C05 == C05(Sn, Calls)
P_C06 == C06(Sn, Calls)
P_C07 == C07(Sn, Calls)
P_C08 == C08(Sn, Calls, Rslt)
P_C09 == C09(Sn, Calls, Rslt)
P_C10 == C10(Sn, Calls, Rslt)
P_C11 == C11(Sn, Calls)
P_C12 == C12(Sn, Calls)
P_C18S == C18S(Sn, Calls, Rslt)
P_C13 == C13(Sn, Calls, Rslt)
P_C14 == C14(Sn, Calls, Rslt)
P_C15 == C15(Rslt)
=======================================================================================
