--------------------------------- MODULE TraceMigrate -------------------------------
(***************************************************************************************)
(* C18, data part.  One record per pod template (fixed family and seeded random valid  *)
(* templates, with and without API-server defaulting): the built-in set is converted,  *)
(* the revision a reference encoder of the built-in controller's patch shape produces  *)
(* is stored relabelled and orphaned (the state after helper.Upgrade and the garbage    *)
(* collector), and the REAL controller reconciles once.                                *)
(***************************************************************************************)
EXTENDS Integers, Sequences, TLC, Json, IOUtils
Recs == ndJsonDeserialize(IOEnv.VERIF_TRACE)
VARIABLE i
TInit == i \in 1..Len(Recs)
TNext == UNCHANGED i
R == Recs[i]
P_C18 == /\ R.res = "ok"
         /\ R.same                 \* the controller's revision data is byte-identical to the built-in controller's
         /\ R.created = 0          \* so no new revision is created ...
         /\ R.updIsBuiltin         \* ... the update revision resolves to the existing one ...
         /\ R.adopted              \* ... which is found through the upgrade marker, label-synced and adopted ...
         /\ R.podDeletes = 0       \* ... and no pod is deleted
         /\ R.applyOK              \* applying the built-in revision to the set reproduces the template
=======================================================================================
