--------------------------------- MODULE ClientSession ------------------------------
(***************************************************************************************)
(* C19.  The client-side helpers as operations on an abstract object:                  *)
(*   nilmap  the annotation map is nil                                                 *)
(*   slots   "absent" | "malformed" | a set of integers   (the delete-slots annotation) *)
(*   paused  "absent" | "true" | "false" | "junk"          (the paused-reconcile one)  *)
(*   other   the other annotation keys present (k1, k2), which nothing may disturb      *)
(* Step(o, op) transcribes helper.go (Set/Add/GetDeleteSlots, Set/GetPausedReconcile). *)
(* Sequences of operations matter: annotations accumulate, maps start out nil, values  *)
(* are re-read after being written.  The data-fidelity half of C19 (hijack round trip, *)
(* conversion, defaulting idempotence over whole objects) is evaluated on generated    *)
(* concrete objects by the harness and judged here from the recorded verdicts.         *)
(***************************************************************************************)
EXTENDS Integers, Sequences, FiniteSets, TLC

CONSTANTS VP, VN                    \* integers that may appear in slot sets: VP and the negatives of VN (a cfg cannot hold "-1")
Vals == VP \cup {0 - x : x \in VN}
SlotSets == SUBSET Vals
Others   == SUBSET {"k1", "k2"}
Absent    == [kind |-> "absent", vals |-> {}]
Malformed == [kind |-> "malformed", vals |-> {}]
SlotAnns  == {Absent, Malformed} \cup [kind : {"set"}, vals : SlotSets]      \* (a stored "[]" is kind "set" with no values)
Objs == {o \in [nilmap : BOOLEAN, slots : SlotAnns, paused : {"absent", "true", "false", "junk"}, other : Others] :
           o.nilmap => (o.slots = Absent /\ o.paused = "absent" /\ o.other = {})}
\* arguments: a set of slots (possibly a nil set), or the pause flag
Ops == [op : {"SetSlots", "AddSlots"}, nilarg : BOOLEAN, vals : SlotSets, flag : {FALSE}] \cup
       [op : {"SetPaused"}, nilarg : {FALSE}, vals : {{}}, flag : BOOLEAN]
GoodOp(op) == op.nilarg => op.vals = {}

GetSlots(o)  == IF o.slots.kind = "set" THEN o.slots.vals ELSE {}
GetPaused(o) == o.paused = "true"
\* SetDeleteSlots: an empty (or nil) set deletes the key - on a nil map too, which stays nil; otherwise the map is made if needed
SetSlotsF(o, S) == IF S = {} THEN [o EXCEPT !.slots = Absent]
                   ELSE [o EXCEPT !.slots = [kind |-> "set", vals |-> S], !.nilmap = FALSE]
\* SetPausedReconcile always makes the map
SetPausedF(o, b) == [o EXCEPT !.paused = IF b THEN "true" ELSE "absent", !.nilmap = FALSE]
Step(o, op) == CASE op.op = "SetSlots"  -> SetSlotsF(o, op.vals)
                 [] op.op = "AddSlots"  -> SetSlotsF(o, GetSlots(o) \cup op.vals)
                 [] OTHER               -> SetPausedF(o, op.flag)

\* what C19 says about one step from o to p (p and the values read back from it are observations)
StepOK(o, op, p) ==
  /\ p.other = o.other                                               \* no other annotation is disturbed
  /\ op.op = "SetSlots"  => (GetSlots(p) = op.vals /\ (op.vals = {} => p.slots.kind = "absent") /\ p.paused = o.paused)
  /\ op.op = "AddSlots"  => (GetSlots(p) = GetSlots(o) \cup op.vals /\ p.paused = o.paused)
  /\ op.op = "SetPaused" => (GetPaused(p) = op.flag /\ p.slots = o.slots)

\* design check: every operation sequence up to Depth keeps StepOK
CONSTANT Depth
VARIABLES obj, n
cvars == <<obj, n>>
CInit == obj \in Objs /\ n = 0
CNext == n < Depth /\ \E op \in Ops : GoodOp(op) /\ obj' = Step(obj, op) /\ n' = n + 1
CSpec == CInit /\ [][CNext]_cvars
StepsOK == [][\A op \in Ops : (GoodOp(op) /\ obj' = Step(obj, op)) => StepOK(obj, op, obj')]_cvars
TypeOK == obj \in Objs
=======================================================================================
