SPECIFICATION QSpec
CHECK_DEADLOCK FALSE
INVARIANT NoLostWakeup
PROPERTY FailureRetried
PROPERTY EventuallyServed
