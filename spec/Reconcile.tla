--------------------------------- MODULE Reconcile ---------------------------------
(***************************************************************************************)
(* One reconcile of the Advanced StatefulSet controller, as a function of the snapshot *)
(* it reads.  Transcribed section by section from                                      *)
(*   pkg/controller/statefulset/stateful_set.go          (sync, adoptOrphanRevisions,  *)
(*                                                         getPodsForStatefulSet)      *)
(*   pkg/third_party/k8s/controller_ref_manager.go       (ClaimPods / ClaimObject)     *)
(*   pkg/controller/statefulset/stateful_set_control.go  (UpdateStatefulSet and below) *)
(*   pkg/controller/statefulset/stateful_pod_control.go  (claim / pod micro-calls)     *)
(*   client/apis/apps/v1/helper/helper.go                (slot arithmetic)             *)
(* with the same case analysis and the same early returns.  The result of Sync(sn) is  *)
(* the ordered list of API calls the controller issues when every call succeeds, and   *)
(* the reconcile's return value.  Pure operators only: the state machine that applies  *)
(* such plans call by call lives in Cluster.tla.                                       *)
(*                                                                                     *)
(* A snapshot sn is a record                                                           *)
(*   set   : the cached StatefulSet (fields below), or cached = FALSE                  *)
(*   pods  : sequence of every cached pod of the namespace (records, see PodFields)    *)
(*   revs  : sequence of every ControllerRevision of the namespace in the API          *)
(*   pvcs  : set of claim names present in the claim cache                             *)
(*   fresh : what an uncached GET of the set returns [exists, sameUid, deleting]       *)
(***************************************************************************************)
EXTENDS Integers, Sequences, FiniteSets, TLC, SequencesExt

---------------------------------------------------------------------------------------
(* Ordinal arithmetic: helper.GetMaxReplicaCountAndDeleteSlots and friends.            *)

MinOf(S) == CHOOSE x \in S : \A y \in S : x <= y
MaxOf(S) == CHOOSE x \in S : \A y \in S : x >= y

RECURSIVE LoopSlots(_, _, _)
LoopSlots(bound, todo, eff) ==          \* ascending walk over the slot list
  IF todo = {} THEN <<bound, eff>>
  ELSE LET s == MinOf(todo) IN
       IF s >= 0 /\ s < bound THEN LoopSlots(bound + 1, todo \ {s}, eff \cup {s})
                              ELSE LoopSlots(bound, todo \ {s}, eff)

Bound(r, S)   == LoopSlots(r, S, {})[1]             \* replicaCount
EffSlots(r, S) == LoopSlots(r, S, {})[2]            \* effective delete slots
Ordinals(r, S) == (0 .. (Bound(r, S) - 1)) \ EffSlots(r, S)     \* GetPodOrdinals

\* The declarative meaning (property C01): the r least naturals that are not slots.
RECURSIVE LeastFree(_, _, _)
LeastFree(r, S, from) ==
  IF r = 0 THEN {}
  ELSE IF from \in S THEN LeastFree(r, S, from + 1)
  ELSE {from} \cup LeastFree(r - 1, S, from + 1)
Desired(r, S) == LeastFree(r, S, 0)

DSet(set) == Ordinals(set.replicas, set.slots)

---------------------------------------------------------------------------------------
(* Calls.  <<verb, resource[/subresource], name, detail string, detail ints, result,  *)
(*           detail strings>> - the same shape the harness records for real calls.     *)

Call(v, r, n, a, k) == <<v, r, n, a, k, "ok", <<>>>>
CallS(v, r, n, a, k, strs) == <<v, r, n, a, k, "ok", strs>>
WithResult(c, res) == <<c[1], c[2], c[3], c[4], c[5], res, c[7]>>
PodName(set, i)      == set.name \o "-" \o ToString(i)
ClaimName(set, c, i) == c \o "-" \o set.name \o "-" \o ToString(i)

---------------------------------------------------------------------------------------
(* Pod predicates (stateful_set_utils.go).                                             *)

IsNew(p)        == p.new
RunningReady(p) == ~p.new /\ p.phase = "Running" /\ p.ready
Terminating(p)  == ~p.new /\ p.term
Healthy(p)      == RunningReady(p) /\ ~Terminating(p)
Dead(p)         == ~p.new /\ p.phase \in {"Failed", "Succeeded"}
RevOf(p)        == p.rev

NewPod(set, i, rev) ==
  [new |-> TRUE, name |-> PodName(set, i), ord |-> i, rev |-> rev, phase |-> "", ready |-> FALSE,
   term |-> FALSE, identOK |-> TRUE, storOK |-> TRUE, member |-> TRUE, match |-> TRUE, owner |-> "self"]

---------------------------------------------------------------------------------------
(* Revisions: ListRevisions (both label queries, de-duplicated, foreign owners         *)
(* dropped), ordering of SortControllerRevisions.                                      *)

RevLess(a, b) == \/ a.num < b.num
                 \/ a.num = b.num /\ a.created < b.created
                 \/ a.num = b.num /\ a.created = b.created /\ a.rank < b.rank

SeqToSet(s) == {s[k] : k \in 1..Len(s)}
ByRank(S)   == SetToSortSeq(S, LAMBDA a, b : a.rank < b.rank)

\* what the two list calls return, concatenated, then filtered
Listed(revs) ==
  LET all    == SeqToSet(revs)
      bySel  == ByRank({x \in all : x.sel})
      byMark == ByRank({x \in all : x.marker /\ ~x.sel})      \* second copy of a doubly matched one is dropped
  IN SelectSeq(bySel \o byMark, LAMBDA x : x.owner \in {"self", "none"})

SortedRevs(revs) == SetToSortSeq(SeqToSet(Listed(revs)), RevLess)

---------------------------------------------------------------------------------------
(* adoptOrphanRevisions (stateful_set.go).                                             *)

FreshOK(sn) == sn.fresh.exists /\ sn.fresh.sameUid
FreshGet(sn) == LET c == Call("get", "statefulsets", sn.set.name, "", <<>>) IN
                IF sn.fresh.exists THEN c ELSE WithResult(c, "NotFound")

AdoptRevisions(sn) ==
  LET set     == sn.set
      orphans == SelectSeq(Listed(sn.revs), LAMBDA x : x.owner = "none")
      get     == <<FreshGet(sn)>>
      syncs   == [k \in 1..Len(SelectSeq(orphans, LAMBDA x : x.marker)) |->
                    Call("update", "controllerrevisions", SelectSeq(orphans, LAMBDA x : x.marker)[k].name, "labels", <<>>)]
      adopts  == [k \in 1..Len(orphans) |-> Call("patch", "controllerrevisions", orphans[k].name, "adopt", <<>>)]
      names   == {orphans[k].name : k \in 1..Len(orphans)}
      after   == [k \in 1..Len(sn.revs) |->
                    IF sn.revs[k].name \in names
                    THEN [sn.revs[k] EXCEPT !.owner = "self", !.sel = IF sn.revs[k].marker THEN TRUE ELSE @]
                    ELSE sn.revs[k]]
  IN
  IF Len(orphans) = 0 \/ set.deleting THEN [calls |-> <<>>, err |-> FALSE, revs |-> sn.revs]
  ELSE IF ~FreshOK(sn)               THEN [calls |-> get, err |-> TRUE, revs |-> sn.revs]
  ELSE IF sn.fresh.deleting          THEN [calls |-> get, err |-> FALSE, revs |-> sn.revs]
  ELSE [calls |-> get \o syncs \o adopts, err |-> FALSE, revs |-> after]

---------------------------------------------------------------------------------------
(* getPodsForStatefulSet: ClaimPods over every pod of the namespace.  Pods are visited *)
(* in cache order, which is unspecified; the spec fixes name order and the trace spec  *)
(* compares this section as a set.                                                     *)

Matches(p) == p.match /\ p.member

ClaimPods(sn) ==
  LET set      == sn.set
      pods     == sn.pods
      owned    == SelectSeq(pods, LAMBDA p : p.owner = "self" /\ Matches(p))
      toRel    == SelectSeq(pods, LAMBDA p : p.owner = "self" /\ ~Matches(p) /\ ~set.deleting)
      toAdopt  == SelectSeq(pods, LAMBDA p : p.owner = "none" /\ ~set.deleting /\ Matches(p) /\ ~p.term)
      canAdopt == FreshOK(sn) /\ ~sn.fresh.deleting
      get      == IF Len(toAdopt) > 0 THEN <<FreshGet(sn)>> ELSE <<>>
      rel      == [k \in 1..Len(toRel) |-> Call("patch", "pods", toRel[k].name, "release", <<>>)]
      adopt    == IF canAdopt THEN [k \in 1..Len(toAdopt) |-> Call("patch", "pods", toAdopt[k].name, "adopt", <<>>)]
                  ELSE <<>>
  IN [calls   |-> get \o rel \o adopt,
      err     |-> Len(toAdopt) > 0 /\ ~canAdopt,
      claimed |-> SelectSeq(pods, LAMBDA p : (p.owner = "self" /\ Matches(p))
                                              \/ (canAdopt /\ p.owner = "none" /\ ~set.deleting /\ Matches(p) /\ ~p.term))]

---------------------------------------------------------------------------------------
(* getStatefulSetRevisions.                                                            *)

NextNum(sorted) == IF Len(sorted) = 0 THEN 1 ELSE sorted[Len(sorted)].num + 1
NatName(set, c) == set.tmpl \o "." \o ToString(c)        \* the name hashing gives (template, collision count)

\* create loop: the name chosen for collision count c may be taken by any revision of the namespace
RECURSIVE CreateLoop(_, _, _, _, _)
CreateLoop(set, allrevs, num, c, acc) ==
  LET nm    == NatName(set, c)
      clash == {x \in SeqToSet(allrevs) : x.name = nm}
      cr    == Call("create", "controllerrevisions", nm, set.tmpl, <<num>>)
  IN IF clash = {} THEN [calls |-> Append(acc, cr), name |-> nm, coll |-> c, created |-> TRUE]
     ELSE LET x == CHOOSE y \in clash : TRUE
              gt == Call("get", "controllerrevisions", nm, "", <<>>)
              ae == WithResult(cr, "AlreadyExists") IN
          IF x.tmpl = set.tmpl THEN [calls |-> acc \o <<ae, gt>>, name |-> nm, coll |-> c, created |-> FALSE]
          ELSE IF c >= 8 THEN [calls |-> acc \o <<ae, gt>>, name |-> nm, coll |-> c, created |-> FALSE]  \* bound for TLC only
          ELSE CreateLoop(set, allrevs, num, c + 1, acc \o <<ae, gt>>)

Revisions(set, allrevs) ==
  LET sorted == SortedRevs(allrevs)
      n      == Len(sorted)
      next   == NextNum(sorted)
      equal  == SelectSeq(sorted, LAMBDA x : x.tmpl = set.tmpl)
      curIdx == {k \in 1..n : sorted[k].name = set.status.curRev}
      cur0   == IF curIdx = {} THEN "" ELSE sorted[MinOf(curIdx)].name
  IN
  IF Len(equal) > 0 /\ sorted[n].tmpl = set.tmpl THEN
       [calls |-> <<>>, upd |-> sorted[n].name, cur |-> IF cur0 = "" THEN sorted[n].name ELSE cur0,
        coll |-> set.status.collisions, sorted |-> sorted]
  ELSE IF Len(equal) > 0 THEN
       LET e == equal[Len(equal)] IN
       [calls |-> <<Call("update", "controllerrevisions", e.name, "renumber", <<next>>)>>,
        upd |-> e.name, cur |-> IF cur0 = "" THEN e.name ELSE cur0, coll |-> set.status.collisions, sorted |-> sorted]
  ELSE LET cl == CreateLoop(set, allrevs, next, set.status.collisions, <<>>) IN
       [calls |-> cl.calls, upd |-> cl.name, cur |-> IF cur0 = "" THEN cl.name ELSE cur0,
        coll |-> cl.coll, sorted |-> sorted]

---------------------------------------------------------------------------------------
(* updateStatefulSet.                                                                  *)

Mono(set) == set.policy # "Parallel"

\* newVersionedStatefulSetPod: which revision a pod created at ordinal i is built from
CreateRev(set, cur, upd, i) ==
  IF \/ set.strat = "RollingUpdate" /\ ~set.ruBlock /\ i < set.status.current
     \/ set.ruBlock /\ set.partPresent /\ i < set.part
  THEN cur ELSE upd

UpdateMin(set) == IF set.ruBlock /\ set.partPresent /\ set.part > 0 THEN set.part ELSE 0

\* createPersistentVolumeClaims: one create per claim template missing from the claim cache
ClaimCalls(sn, i) ==
  LET missing == SelectSeq(sn.set.claims, LAMBDA c : ClaimName(sn.set, c, i) \notin sn.pvcs) IN
  [k \in 1..Len(missing) |-> CallS("create", "persistentvolumeclaims", ClaimName(sn.set, missing[k], i), "", <<>>, <<"claim-ok">>)]

Squatted(sn, n) == \E q \in SeqToSet(sn.pods) : q.name = n      \* only asked for names the set does not hold itself
CreatePodCalls(sn, p, squat) ==
  LET c == CallS("create", "pods", p.name, p.rev, <<p.ord, 1>>, <<"tmpl-ok">>) IN
  ClaimCalls(sn, p.ord) \o <<IF squat THEN WithResult(c, "AlreadyExists") ELSE c>>
UpdatePodCalls(sn, p) == (IF p.storOK THEN <<>> ELSE ClaimCalls(sn, p.ord)) \o <<Call("update", "pods", p.name, "", <<>>)>>

\* census over the claimed pods
Census(claimed, cur, upd) ==
  LET S == SeqToSet(claimed) IN
  [replicas |-> Len(claimed),
   ready    |-> Cardinality({p \in S : RunningReady(p)}),
   current  |-> Cardinality({p \in S : ~p.term /\ p.rev = cur}),
   updated  |-> Cardinality({p \in S : ~p.term /\ p.rev = upd})]

PodAt(claimed, i) == LET S == {p \in SeqToSet(claimed) : p.ord = i} IN
                     IF S = {} THEN [new |-> TRUE, absent |-> TRUE] ELSE CHOOSE p \in S : TRUE
Present(claimed, i) == \E p \in SeqToSet(claimed) : p.ord = i

\* acc: [calls, st (counters), stop, reps (function ordinal -> pod as the loop leaves it)]
RECURSIVE ReplicaLoop(_, _, _, _, _, _, _)
ReplicaLoop(sn, claimed, cur, upd, i, bound, acc) ==
  IF i >= bound THEN acc
  ELSE IF i \notin DOMAIN acc.reps THEN ReplicaLoop(sn, claimed, cur, upd, i + 1, bound, acc)   \* a delete slot
  ELSE
    LET set  == sn.set
        mono == Mono(set)
        p0   == acc.reps[i]
        dead == Dead(p0)
        a1   == IF dead THEN
                   [acc EXCEPT !.calls = Append(@, Call("delete", "pods", p0.name, "failed", <<>>)),
                               !.st = [@ EXCEPT !.replicas = @ - 1,
                                                !.current  = IF ~p0.term /\ p0.rev = cur THEN @ - 1 ELSE @,
                                                !.updated  = IF ~p0.term /\ p0.rev = upd THEN @ - 1 ELSE @]]
                ELSE acc
        p    == IF dead THEN NewPod(set, i, CreateRev(set, cur, upd, i)) ELSE p0
        a2   == [a1 EXCEPT !.reps = (i :> p) @@ @]
    IN
    IF IsNew(p) /\ ~dead /\ Squatted(sn, p.name) THEN
        \* the name is taken by a pod the set does not own: the create fails and the reconcile returns the error
        [a2 EXCEPT !.calls = @ \o CreatePodCalls(sn, p, TRUE), !.stop = TRUE, !.fail = TRUE]
    ELSE IF IsNew(p) THEN
        LET a3 == [a2 EXCEPT !.calls = @ \o CreatePodCalls(sn, p, FALSE),
                             !.st = [@ EXCEPT !.replicas = @ + 1,
                                              !.current  = IF p.rev = cur THEN @ + 1 ELSE @,
                                              !.updated  = IF p.rev = upd THEN @ + 1 ELSE @]] IN
        IF mono THEN [a3 EXCEPT !.stop = TRUE] ELSE ReplicaLoop(sn, claimed, cur, upd, i + 1, bound, a3)
    ELSE IF Terminating(p) /\ mono THEN [a2 EXCEPT !.stop = TRUE]
    ELSE IF ~RunningReady(p) /\ mono THEN [a2 EXCEPT !.stop = TRUE]
    ELSE IF p.identOK /\ p.storOK THEN ReplicaLoop(sn, claimed, cur, upd, i + 1, bound, a2)
    ELSE ReplicaLoop(sn, claimed, cur, upd, i + 1, bound, [a2 EXCEPT !.calls = @ \o UpdatePodCalls(sn, p)])

CondemnedSet(sn, claimed) ==
  LET set == sn.set ls == LoopSlots(set.replicas, set.slots, {}) IN
  {p \in SeqToSet(claimed) : p.ord >= 0 /\ (p.ord >= ls[1] \/ p.ord \in ls[2])}

\* firstUnhealthyPod: lowest ordinal among unhealthy pods, replicas (incl. not yet created ones) first
FirstUnhealthy(sn, claimed, reps) ==
  LET U == {i \in DOMAIN reps : ~Healthy(reps[i])} \cup {p.ord : p \in {q \in CondemnedSet(sn, claimed) : ~Healthy(q)}}
  IN IF U = {} THEN -1 ELSE MinOf(U)

RECURSIVE CondemnedLoop(_, _, _, _, _, _)
CondemnedLoop(sn, todo, fu, cur, upd, acc) ==
  IF todo = {} THEN acc
  ELSE LET t    == CHOOSE p \in todo : \A q \in todo : p.ord >= q.ord
           mono == Mono(sn.set) IN
       IF t.term THEN (IF mono THEN [acc EXCEPT !.stop = TRUE] ELSE CondemnedLoop(sn, todo \ {t}, fu, cur, upd, acc))
       ELSE IF ~RunningReady(t) /\ mono /\ t.ord # fu THEN [acc EXCEPT !.stop = TRUE]
       ELSE LET a2 == [acc EXCEPT !.calls = Append(@, Call("delete", "pods", t.name, "scale", <<>>)),
                                  !.st = [@ EXCEPT !.current = IF t.rev = cur THEN @ - 1 ELSE @,
                                                   !.updated = IF t.rev = upd THEN @ - 1 ELSE @]] IN
            IF mono THEN [a2 EXCEPT !.stop = TRUE] ELSE CondemnedLoop(sn, todo \ {t}, fu, cur, upd, a2)

RECURSIVE UpdateLoop(_, _, _, _, _)
UpdateLoop(sn, cur, upd, t, acc) ==
  IF t < UpdateMin(sn.set) THEN acc
  ELSE IF t \notin DOMAIN acc.reps THEN UpdateLoop(sn, cur, upd, t - 1, acc)
  ELSE LET p == acc.reps[t] IN
       IF p.rev # upd /\ ~Terminating(p) THEN
            [acc EXCEPT !.calls = Append(@, Call("delete", "pods", p.name, "update", <<>>)),
                        !.st = [@ EXCEPT !.current = IF p.rev = cur THEN @ - 1 ELSE @]]
       ELSE IF ~Healthy(p) THEN acc
       ELSE UpdateLoop(sn, cur, upd, t - 1, acc)

\* status as written by updateStatefulSetStatus (completeRollingUpdate, inconsistentStatus)
FinalStatus(set, st, cur, upd, coll) ==
  LET complete == set.strat = "RollingUpdate" /\ st.updated = st.replicas /\ st.ready = st.replicas IN
  [obsGen |-> set.gen, replicas |-> st.replicas, ready |-> st.ready,
   current |-> IF complete THEN st.updated ELSE st.current, updated |-> st.updated,
   curRev |-> IF complete THEN upd ELSE cur, updRev |-> upd, collisions |-> coll]

Inconsistent(set, fs) ==
  \/ fs.obsGen > set.status.obsGen
  \/ fs.replicas # set.status.replicas \/ fs.current # set.status.current
  \/ fs.ready # set.status.ready \/ fs.updated # set.status.updated
  \/ fs.curRev # set.status.curRev \/ fs.updRev # set.status.updRev

StatusCall(set, fs) ==
  CallS("update", "statefulsets/status", set.name, "",
        <<fs.obsGen, fs.replicas, fs.ready, fs.current, fs.updated, fs.collisions>>, <<fs.curRev, fs.updRev>>)

\* truncateHistory
Truncate(set, claimed, sorted, cur, upd) ==
  LET live == {cur, upd} \cup {p.rev : p \in SeqToSet(claimed)}
      hist == SelectSeq(sorted, LAMBDA x : x.name \notin live)
      n    == Len(hist) - set.histLimit
  IN IF n <= 0 THEN <<>> ELSE [k \in 1..n |-> Call("delete", "controllerrevisions", hist[k].name, "", <<>>)]

UpdateSet(sn, claimed, revs) ==
  LET set   == sn.set
      rv    == Revisions(set, revs)
      cur   == rv.cur
      upd   == rv.upd
      ls    == LoopSlots(set.replicas, set.slots, {})
      bound == ls[1]
      dset  == (0 .. (bound - 1)) \ ls[2]
      a0    == [calls |-> <<>>, st |-> Census(claimed, cur, upd), stop |-> FALSE, fail |-> FALSE,
                reps |-> [i \in {} |-> 0]]
      \* the replicas slice holds a pod (existing or to be created) for every desired ordinal
      reps0 == [i \in dset |-> IF Present(claimed, i) THEN PodAt(claimed, i)
                                    ELSE NewPod(set, i, CreateRev(set, cur, upd, i))]
      a1    == IF set.deleting THEN [a0 EXCEPT !.stop = TRUE]
               ELSE ReplicaLoop(sn, claimed, cur, upd, 0, bound, [a0 EXCEPT !.reps = reps0])
      a2    == IF a1.stop THEN a1
               ELSE CondemnedLoop(sn, CondemnedSet(sn, claimed), FirstUnhealthy(sn, claimed, reps0), cur, upd, a1)
      a3    == IF a2.stop \/ set.strat = "OnDelete" THEN a2 ELSE UpdateLoop(sn, cur, upd, bound - 1, a2)
      fs    == FinalStatus(set, a3.st, cur, upd, rv.coll)
      \* UpdateStatus carries the cached object's resourceVersion and UID: if the stored object is gone the write
      \* fails NotFound; if it moved on (or was re-created) it fails Conflict and RetryOnConflict (5 steps) re-reads
      \* the same stale cache, so all 5 attempts fail and the reconcile returns the error.
      sc    == StatusCall(set, fs)
      stc   == IF ~Inconsistent(set, fs) THEN <<>>
               ELSE IF ~sn.fresh.exists THEN <<WithResult(sc, "NotFound")>>
               ELSE IF ~sn.fresh.sameUid \/ ~sn.fresh.rvSame THEN [k \in 1..5 |-> WithResult(sc, "Conflict")]
               ELSE <<sc>>
      stOK  == stc = <<>> \/ stc = <<sc>>
      tr    == IF stOK THEN Truncate(set, claimed, rv.sorted, cur, upd) ELSE <<>>
  IN IF a3.fail THEN [calls |-> rv.calls \o a3.calls, res |-> "err"]
     ELSE [calls |-> rv.calls \o a3.calls \o stc \o tr, res |-> IF stOK THEN "ok" ELSE "err"]

---------------------------------------------------------------------------------------
(* sync                                                                                *)

Sync(sn) ==
  IF ~sn.set.cached \/ sn.set.paused \/ ~sn.set.selectorOK THEN [calls |-> <<>>, res |-> "ok"]
  ELSE LET ar == AdoptRevisions(sn) IN
       IF ar.err THEN [calls |-> ar.calls, res |-> "err"]
       ELSE LET cp == ClaimPods(sn) IN
            IF cp.err THEN [calls |-> ar.calls \o cp.calls, res |-> "err"]
            ELSE LET us == UpdateSet(sn, cp.claimed, ar.revs) IN
                 [calls |-> ar.calls \o cp.calls \o us.calls, res |-> us.res]

Plan(sn) == Sync(sn).calls
=======================================================================================
