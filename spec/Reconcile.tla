--------------------------------- MODULE Reconcile ---------------------------------
(***************************************************************************************)
(* One reconcile of the Advanced StatefulSet controller, as a function of the snapshot *)
(* it reads.  Transcribed section by section from                                      *)
(*   pkg/controller/statefulset/stateful_set.go          (sync, adoptOrphanRevisions,  *)
(*                                                         getPodsForStatefulSet)      *)
(*   pkg/third_party/k8s/controller_ref_manager.go       (ClaimPods / ClaimObject)     *)
(*   pkg/controller/statefulset/stateful_set_control.go  (UpdateStatefulSet and below) *)
(*   pkg/controller/statefulset/stateful_pod_control.go  (claim / pod micro-calls)     *)
(*   client/apis/apps/v1/helper/helper.go                (slot arithmetic)             *)
(* with the same case analysis and the same early returns.  The result of Sync(sn) is  *)
(* the ordered list of API calls the controller issues when every call succeeds, and   *)
(* the reconcile's return value.  Pure operators only: the state machine that applies  *)
(* such plans call by call lives in Cluster.tla.                                       *)
(*                                                                                     *)
(* A snapshot sn is a record                                                           *)
(*   set   : the cached StatefulSet (fields below), or cached = FALSE                  *)
(*   pods  : sequence of every cached pod of the namespace (records, see PodFields)    *)
(*   revs  : sequence of every ControllerRevision of the namespace in the API          *)
(*   pvcs  : set of claim names present in the claim cache                             *)
(*   fresh : what an uncached GET of the set returns [exists, sameUid, deleting]       *)
(***************************************************************************************)
EXTENDS Integers, Sequences, FiniteSets, TLC, SequencesExt

---------------------------------------------------------------------------------------
(* Ordinal arithmetic: helper.GetMaxReplicaCountAndDeleteSlots and friends.            *)

MinOf(S) == CHOOSE x \in S : \A y \in S : x <= y
MaxOf(S) == CHOOSE x \in S : \A y \in S : x >= y

RECURSIVE LoopSlots(_, _, _)
LoopSlots(bound, todo, eff) ==          \* ascending walk over the slot list
  IF todo = {} THEN <<bound, eff>>
  ELSE LET s == MinOf(todo) IN
       IF s >= 0 /\ s < bound THEN LoopSlots(bound + 1, todo \ {s}, eff \cup {s})
                              ELSE LoopSlots(bound, todo \ {s}, eff)

Bound(r, S)   == LoopSlots(r, S, {})[1]             \* replicaCount
EffSlots(r, S) == LoopSlots(r, S, {})[2]            \* effective delete slots
Ordinals(r, S) == (0 .. (Bound(r, S) - 1)) \ EffSlots(r, S)     \* GetPodOrdinals

\* The declarative meaning (property C01): the r least naturals that are not slots.
RECURSIVE LeastFree(_, _, _)
LeastFree(r, S, from) ==
  IF r = 0 THEN {}
  ELSE IF from \in S THEN LeastFree(r, S, from + 1)
  ELSE {from} \cup LeastFree(r - 1, S, from + 1)
Desired(r, S) == LeastFree(r, S, 0)

DSet(set) == Ordinals(set.replicas, set.slots)

---------------------------------------------------------------------------------------
(* Calls.  <<verb, resource[/subresource], name, detail string, detail ints, result,  *)
(*           detail strings>> - the same shape the harness records for real calls.     *)

Call(v, r, n, a, k) == <<v, r, n, a, k, "ok", <<>>>>
CallS(v, r, n, a, k, strs) == <<v, r, n, a, k, "ok", strs>>
WithResult(c, res) == <<c[1], c[2], c[3], c[4], c[5], res, c[7]>>
PodName(set, i)      == set.name \o "-" \o ToString(i)
ClaimName(set, c, i) == c \o "-" \o set.name \o "-" \o ToString(i)

---------------------------------------------------------------------------------------
(* Pod predicates (stateful_set_utils.go).                                             *)

IsNew(p)        == p.new
RunningReady(p) == ~p.new /\ p.phase = "Running" /\ p.ready
Terminating(p)  == ~p.new /\ p.term
Healthy(p)      == RunningReady(p) /\ ~Terminating(p)
Dead(p)         == ~p.new /\ p.phase \in {"Failed", "Succeeded"}
RevOf(p)        == p.rev

NewPod(set, i, rev) ==
  [new |-> TRUE, name |-> PodName(set, i), ord |-> i, rev |-> rev, phase |-> "", ready |-> FALSE,
   term |-> FALSE, identOK |-> TRUE, storOK |-> TRUE, member |-> TRUE, match |-> TRUE, owner |-> "self", uidOK |-> TRUE]

---------------------------------------------------------------------------------------
(* Revisions: ListRevisions (both label queries, de-duplicated, foreign owners         *)
(* dropped), ordering of SortControllerRevisions.                                      *)

RevLess(a, b) == \/ a.num < b.num
                 \/ a.num = b.num /\ a.created < b.created
                 \/ a.num = b.num /\ a.created = b.created /\ a.rank < b.rank

SeqToSet(s) == {s[k] : k \in 1..Len(s)}
ByRank(S)   == SetToSortSeq(S, LAMBDA a, b : a.rank < b.rank)

\* what the two list calls return, concatenated, then filtered
Listed(revs) ==
  LET all    == SeqToSet(revs)
      bySel  == ByRank({x \in all : x.sel})
      byMark == ByRank({x \in all : x.marker /\ ~x.sel})      \* second copy of a doubly matched one is dropped
  IN SelectSeq(bySel \o byMark, LAMBDA x : x.owner \in {"self", "none"})

SortedRevs(revs) == SetToSortSeq(SeqToSet(Listed(revs)), RevLess)
\* a revision marked for this set's upgrade that someone else still controls (the garbage collector has not orphaned it
\* yet): listing the history fails until it can be adopted - acting on the incomplete history would mint a new revision
InTransit(revs) == \E x \in SeqToSet(revs) : x.marker /\ x.owner \notin {"self", "none"}

---------------------------------------------------------------------------------------
(* Call results.  A call fails either because an error is injected at its position     *)
(* (sn.faults: the adversary of C09) or naturally, because the API moved on while the  *)
(* cache did not (sn.apods / sn.apvcs: what the API really holds).  Positions count    *)
(* the calls of the plan (list calls are not counted; a failing list call is a fault   *)
(* with list = 1..4).                                                                  *)

NoFaults == <<>>
FaultAt(sn, pos)  == {f \in SeqToSet(sn.faults) : f.k = pos}
\* list calls happen in order 1,2 (adoptOrphanRevisions) and 3,4 (UpdateStatefulSet); the first faulty one ends the reconcile
ListFault(sn, js) == \E f \in SeqToSet(sn.faults) : f.list \in js
ListDied(sn, js)  == LET F == {f \in SeqToSet(sn.faults) : f.list \in js} IN
                     F # {} /\ (CHOOSE f \in F : \A g \in F : f.list <= g.list).die
\* "applied": the request is executed and only the answer is lost - which needs a request that can be executed
FaultLabel(f, nat) == LET ap == f.applied /\ nat = "ok" IN
                      IF f.die THEN (IF ap THEN "DiedApplied" ELSE "Died")
                      ELSE IF ap THEN f.kind \o "Applied" ELSE f.kind
\* a fault may come with the informer dropping an object from its cache at that very moment ("set", or "pod": the pod the
\* failing call is about) - a delete event overtaking the reconcile
EvictOf(f) == IF "evict" \in DOMAIN f THEN f.evict ELSE ""
EvictAt(sn, pos, what) == \E f \in FaultAt(sn, pos) : EvictOf(f) = what
\* the result of the call at absolute position pos whose natural result is nat
ResultAt(sn, pos, nat) == IF FaultAt(sn, pos) # {} THEN FaultLabel(CHOOSE f \in FaultAt(sn, pos) : TRUE, nat) ELSE nat
At(sn, pos, c) == WithResult(c, ResultAt(sn, pos, c[6]))
IsOK(c)       == c[6] = "ok"
IsNotFound(c) == c[6] \in {"NotFound", "NotFoundApplied"}
IsConflict(c) == c[6] \in {"Conflict", "ConflictApplied"}
IsExists(c)   == c[6] \in {"AlreadyExists", "AlreadyExistsApplied"}
IsDied(c)     == c[6] \in {"Died", "DiedApplied"}
\* overlay the injected faults on calls that occupy positions base+1 .. base+Len(calls)
Overlay(sn, calls, base) == [k \in 1..Len(calls) |-> At(sn, base + k, calls[k])]
FirstBad(calls) == LET B == {k \in 1..Len(calls) : ~IsOK(calls[k])} IN IF B = {} THEN 0 ELSE MinOf(B)

\* what the API holds when the caches are up to date
ApiFromCache(pods) == [k \in 1..Len(pods) |->
   [name |-> pods[k].name, imm |-> pods[k].phase \in {"Failed", "Succeeded"} \/ (pods[k].phase = "Pending" /\ ~pods[k].term)]]

ApiPod(sn, n)    == {q \in SeqToSet(sn.apods) : q.name = n}
ApiHasPod(sn, n) == ApiPod(sn, n) # {}
ApiImm(sn, n)    == \E q \in ApiPod(sn, n) : q.imm        \* a delete removes it at once (finished or never scheduled)

---------------------------------------------------------------------------------------
(* adoptOrphanRevisions (stateful_set.go).                                             *)

FreshOK(sn) == sn.fresh.exists /\ sn.fresh.sameUid
FreshGet(sn) == LET c == Call("get", "statefulsets", sn.set.name, "", <<>>) IN
                IF sn.fresh.exists THEN c ELSE WithResult(c, "NotFound")

\* returns [calls, err, died, revs] ; base = number of plan calls before this section
AdoptRevisions(sn, base) ==
  LET set     == sn.set
      orphans == SelectSeq(Listed(sn.revs), LAMBDA x : x.owner = "none")
      marked  == SelectSeq(orphans, LAMBDA x : x.marker)
      get     == <<FreshGet(sn)>>
      syncs   == [k \in 1..Len(marked) |-> Call("update", "controllerrevisions", marked[k].name, "labels", <<>>)]
      adopts  == [k \in 1..Len(orphans) |-> Call("patch", "controllerrevisions", orphans[k].name, "adopt", <<>>)]
      names   == {orphans[k].name : k \in 1..Len(orphans)}
      after   == [k \in 1..Len(sn.revs) |->
                    IF sn.revs[k].name \in names
                    THEN [sn.revs[k] EXCEPT !.owner = "self", !.sel = IF sn.revs[k].marker THEN TRUE ELSE @]
                    ELSE sn.revs[k]]
      g       == Overlay(sn, get, base)
      full    == Overlay(sn, get \o syncs \o adopts, base)
      bad     == FirstBad(full)
  IN
  IF ListFault(sn, {1, 2}) THEN [calls |-> <<>>, err |-> TRUE, revs |-> sn.revs]
  ELSE IF InTransit(sn.revs) THEN [calls |-> <<>>, err |-> TRUE, revs |-> sn.revs]
  ELSE IF Len(orphans) = 0 \/ set.deleting THEN [calls |-> <<>>, err |-> FALSE, revs |-> sn.revs]
  ELSE IF ~IsOK(g[1])               THEN [calls |-> g, err |-> TRUE, revs |-> sn.revs]
  ELSE IF ~sn.fresh.sameUid         THEN [calls |-> g, err |-> TRUE, revs |-> sn.revs]
  ELSE IF sn.fresh.deleting         THEN [calls |-> g, err |-> FALSE, revs |-> sn.revs]
  ELSE IF bad > 0 THEN [calls |-> SubSeq(full, 1, bad), err |-> TRUE, revs |-> sn.revs]
  ELSE [calls |-> full, err |-> FALSE, revs |-> after]

---------------------------------------------------------------------------------------
(* getPodsForStatefulSet: ClaimPods over every pod of the namespace.  Pods are visited *)
(* in cache order, which is unspecified; the harness puts this segment in the order    *)
(* used here (fresh GET, releases by name, adoptions by name).  Every pod is handled   *)
(* even if an earlier one failed; errors are aggregated.  A patch that answers         *)
(* NotFound (Invalid for a release) is not an error: the pod is simply not claimed.    *)

Matches(p) == p.match /\ p.member

ClaimPods(sn, base) ==
  LET set      == sn.set
      pods     == sn.pods
      toRel    == SelectSeq(pods, LAMBDA p : p.owner = "self" /\ ~Matches(p) /\ ~set.deleting)
      toAdopt  == SelectSeq(pods, LAMBDA p : p.owner = "none" /\ ~set.deleting /\ Matches(p) /\ ~p.term)
      get0     == IF Len(toAdopt) > 0 THEN <<FreshGet(sn)>> ELSE <<>>
      get      == Overlay(sn, get0, base)
      canAdopt == Len(toAdopt) > 0 /\ IsOK(get[1]) /\ sn.fresh.sameUid /\ ~sn.fresh.deleting
      \* the patch carries the UID of the cached object: another incarnation of the pod makes it Invalid
      nat(p)   == IF ~ApiHasPod(sn, p.name) THEN "NotFound" ELSE IF ~p.uidOK THEN "Invalid" ELSE "ok"
      rel0     == [k \in 1..Len(toRel) |-> WithResult(Call("patch", "pods", toRel[k].name, "release", <<>>), nat(toRel[k]))]
      adopt0   == IF canAdopt THEN [k \in 1..Len(toAdopt) |->
                                      WithResult(Call("patch", "pods", toAdopt[k].name, "adopt", <<>>), nat(toAdopt[k]))]
                  ELSE <<>>
      rel      == Overlay(sn, rel0, base + Len(get))
      adopt    == Overlay(sn, adopt0, base + Len(get) + Len(rel))
      adopted  == {adopt[k][3] : k \in {j \in 1..Len(adopt) : IsOK(adopt[j])}}
      hardErr(c) == ~IsOK(c) /\ ~IsNotFound(c) /\ ~(c[4] = "release" /\ c[6] = "Invalid")
      all      == get \o rel \o adopt
      died     == {k \in 1..Len(all) : IsDied(all[k])}
  IN [calls   |-> IF died = {} THEN all ELSE SubSeq(all, 1, MinOf(died)),
      died    |-> died # {},
      err     |-> \/ (Len(toAdopt) > 0 /\ ~canAdopt)
                  \/ \E k \in 1..Len(rel) : hardErr(rel[k])
                  \/ \E k \in 1..Len(adopt) : hardErr(adopt[k]),
      claimed |-> SelectSeq(pods, LAMBDA p : (p.owner = "self" /\ Matches(p)) \/ p.name \in adopted)]

---------------------------------------------------------------------------------------
(* getStatefulSetRevisions.                                                            *)

NextNum(sorted) == IF Len(sorted) = 0 THEN 1 ELSE sorted[Len(sorted)].num + 1
NatName(set, c) == set.tmpl \o "." \o ToString(c)        \* the name hashing gives (template, collision count)

\* create loop: the name chosen for collision count c may be taken by any revision of the namespace.
\* returns [calls, name, coll, err]
RECURSIVE CreateLoop(_, _, _, _, _, _, _)
CreateLoop(sn, allrevs, num, c, acc, base, depth) ==
  LET set   == sn.set
      nm    == NatName(set, c)
      clash == {x \in SeqToSet(allrevs) : x.name = nm}
      cr    == At(sn, base + Len(acc) + 1,
                  WithResult(Call("create", "controllerrevisions", nm, set.tmpl, <<num>>), IF clash = {} THEN "ok" ELSE "AlreadyExists"))
      gt    == At(sn, base + Len(acc) + 2,
                  WithResult(Call("get", "controllerrevisions", nm, "", <<>>), IF clash = {} THEN "NotFound" ELSE "ok"))
  IN IF IsOK(cr) THEN [calls |-> Append(acc, cr), name |-> nm, coll |-> c, err |-> FALSE]
     ELSE IF ~IsExists(cr) THEN [calls |-> Append(acc, cr), name |-> nm, coll |-> c, err |-> TRUE]
     ELSE IF ~IsOK(gt) THEN [calls |-> acc \o <<cr, gt>>, name |-> nm, coll |-> c, err |-> TRUE]
     ELSE LET x == CHOOSE y \in clash : TRUE IN
          IF x.tmpl = set.tmpl THEN [calls |-> acc \o <<cr, gt>>, name |-> nm, coll |-> c, err |-> FALSE]
          ELSE IF depth >= 6 THEN [calls |-> acc \o <<cr, gt>>, name |-> nm, coll |-> c, err |-> TRUE]  \* bound for TLC only
          ELSE CreateLoop(sn, allrevs, num, c + 1, acc \o <<cr, gt>>, base, depth + 1)

\* updateControllerRevision: RetryOnConflict (4 steps); after every failed update the object is re-read
RECURSIVE Renumber(_, _, _, _, _, _)
Renumber(sn, name, num, acc, base, step) ==
  LET up == At(sn, base + Len(acc) + 1, Call("update", "controllerrevisions", name, "renumber", <<num>>))
      gt == At(sn, base + Len(acc) + 2, Call("get", "controllerrevisions", name, "", <<>>)) IN
  IF IsOK(up) THEN [calls |-> Append(acc, up), err |-> FALSE]
  ELSE IF IsDied(up) THEN [calls |-> Append(acc, up), err |-> TRUE]
  ELSE IF IsDied(gt) THEN [calls |-> acc \o <<up, gt>>, err |-> TRUE]
  \* a conflict is retried whether or not the re-read worked (a failed re-read puts the old number back into the clone)
  ELSE IF IsConflict(up) /\ step < 4 THEN Renumber(sn, name, num, acc \o <<up, gt>>, base, step + 1)
  ELSE [calls |-> acc \o <<up, gt>>, err |-> TRUE]

Revisions(sn, allrevs, base) ==
  LET set    == sn.set
      sorted == SortedRevs(allrevs)
      n      == Len(sorted)
      next   == NextNum(sorted)
      equal  == SelectSeq(sorted, LAMBDA x : x.tmpl = set.tmpl)
      curIdx == {k \in 1..n : sorted[k].name = set.status.curRev}
      cur0   == IF curIdx = {} THEN "" ELSE sorted[MinOf(curIdx)].name
  IN
  IF Len(equal) > 0 /\ sorted[n].tmpl = set.tmpl THEN
       [calls |-> <<>>, upd |-> sorted[n].name, cur |-> IF cur0 = "" THEN sorted[n].name ELSE cur0,
        coll |-> set.status.collisions, sorted |-> sorted, err |-> FALSE]
  ELSE IF Len(equal) > 0 THEN
       LET e == equal[Len(equal)] rn == Renumber(sn, e.name, next, <<>>, base, 1) IN
       [calls |-> rn.calls, upd |-> e.name, cur |-> IF cur0 = "" THEN e.name ELSE cur0, coll |-> set.status.collisions,
        sorted |-> sorted, err |-> rn.err]
  ELSE LET cl == CreateLoop(sn, allrevs, next, set.status.collisions, <<>>, base, 0) IN
       [calls |-> cl.calls, upd |-> cl.name, cur |-> IF cur0 = "" THEN cl.name ELSE cur0,
        coll |-> cl.coll, sorted |-> sorted, err |-> cl.err]

---------------------------------------------------------------------------------------
(* updateStatefulSet.  The loops below compute the calls of the failure-free path with *)
(* their natural results; UpdateSet then cuts the list at the first call that fails.   *)

Mono(set) == set.policy # "Parallel"

\* newVersionedStatefulSetPod: which revision a pod created at ordinal i is built from
CreateRev(set, cur, upd, i) ==
  IF \/ set.strat = "RollingUpdate" /\ ~set.ruBlock /\ i < set.status.current
     \/ set.ruBlock /\ set.partPresent /\ i < set.part
  THEN cur ELSE upd

UpdateMin(set) == IF set.ruBlock /\ set.partPresent /\ set.part > 0 THEN set.part ELSE 0

\* createPersistentVolumeClaims: one create per claim template missing from the claim CACHE
ClaimCalls(sn, i) ==
  LET missing == SelectSeq(sn.set.claims, LAMBDA c : ClaimName(sn.set, c, i) \notin sn.pvcs) IN
  [k \in 1..Len(missing) |->
     WithResult(CallS("create", "persistentvolumeclaims", ClaimName(sn.set, missing[k], i), "", <<>>, <<"claim-ok">>),
                IF ClaimName(sn.set, missing[k], i) \in sn.apvcs THEN "AlreadyExists" ELSE "ok")]

\* afterDelete: the same reconcile deleted the (finished) pod of that name just before
CreatePodCalls(sn, p, afterDelete) ==
  LET c == CallS("create", "pods", p.name, p.rev, <<p.ord, 1>>, <<"tmpl-ok">>)
      exists == IF afterDelete THEN ApiHasPod(sn, p.name) /\ ~ApiImm(sn, p.name) ELSE ApiHasPod(sn, p.name) IN
  ClaimCalls(sn, p.ord) \o <<IF exists THEN WithResult(c, "AlreadyExists") ELSE c>>
UpdatePodCalls(sn, p) ==
  (IF p.storOK THEN <<>> ELSE ClaimCalls(sn, p.ord)) \o
  <<WithResult(Call("update", "pods", p.name, "", <<>>),
               IF ~ApiHasPod(sn, p.name) THEN "NotFound" ELSE IF ~p.uidOK THEN "Conflict" ELSE "ok")>>
DeletePodCall(sn, p, why) ==
  WithResult(Call("delete", "pods", p.name, why, <<>>), IF ApiHasPod(sn, p.name) \/ p.new THEN "ok" ELSE "NotFound")

\* census over the claimed pods
Census(claimed, cur, upd) ==
  LET S == SeqToSet(claimed) IN
  [replicas |-> Len(claimed),
   ready    |-> Cardinality({p \in S : RunningReady(p)}),
   current  |-> Cardinality({p \in S : ~p.term /\ p.rev = cur}),
   updated  |-> Cardinality({p \in S : ~p.term /\ p.rev = upd})]

PodAt(claimed, i) == LET S == {p \in SeqToSet(claimed) : p.ord = i} IN
                     IF S = {} THEN [new |-> TRUE, absent |-> TRUE] ELSE CHOOSE p \in S : TRUE
Present(claimed, i) == \E p \in SeqToSet(claimed) : p.ord = i

\* acc: [calls, st (status counters), stop, reps (the replicas slice as the loop leaves it)]
Push(acc, cs, st) == [acc EXCEPT !.calls = @ \o cs, !.st = st]

RECURSIVE ReplicaLoop(_, _, _, _, _, _, _)
ReplicaLoop(sn, claimed, cur, upd, i, bound, acc) ==
  IF i >= bound THEN acc
  ELSE IF i \notin DOMAIN acc.reps THEN ReplicaLoop(sn, claimed, cur, upd, i + 1, bound, acc)   \* a delete slot
  ELSE
    LET set  == sn.set
        mono == Mono(set)
        p0   == acc.reps[i]
        dead == Dead(p0)
        st1  == [acc.st EXCEPT !.replicas = @ - 1,
                               !.current  = IF ~p0.term /\ p0.rev = cur THEN @ - 1 ELSE @,
                               !.updated  = IF ~p0.term /\ p0.rev = upd THEN @ - 1 ELSE @]
        a1   == IF dead THEN Push(acc, <<DeletePodCall(sn, p0, "failed")>>, st1) ELSE acc
        p    == IF dead THEN NewPod(set, i, CreateRev(set, cur, upd, i)) ELSE p0
        a2   == [a1 EXCEPT !.reps = (i :> p) @@ @]
    IN
    IF IsNew(p) THEN
        LET st3 == [a2.st EXCEPT !.replicas = @ + 1,
                                 !.current  = IF p.rev = cur THEN @ + 1 ELSE @,
                                 !.updated  = IF p.rev = upd THEN @ + 1 ELSE @]
            a3  == Push(a2, CreatePodCalls(sn, p, dead), st3) IN
        IF mono THEN [a3 EXCEPT !.stop = TRUE] ELSE ReplicaLoop(sn, claimed, cur, upd, i + 1, bound, a3)
    ELSE IF Terminating(p) /\ mono THEN [a2 EXCEPT !.stop = TRUE]
    ELSE IF ~RunningReady(p) /\ mono THEN [a2 EXCEPT !.stop = TRUE]
    ELSE IF p.identOK /\ p.storOK THEN ReplicaLoop(sn, claimed, cur, upd, i + 1, bound, a2)
    ELSE ReplicaLoop(sn, claimed, cur, upd, i + 1, bound, Push(a2, UpdatePodCalls(sn, p), a2.st))

CondemnedSet(sn, claimed) ==
  LET set == sn.set ls == LoopSlots(set.replicas, set.slots, {}) IN
  {p \in SeqToSet(claimed) : p.ord >= 0 /\ (p.ord >= ls[1] \/ p.ord \in ls[2])}

\* firstUnhealthyPod: lowest ordinal among unhealthy pods, replicas (incl. not yet created ones) first
FirstUnhealthy(sn, claimed, reps) ==
  LET U == {i \in DOMAIN reps : ~Healthy(reps[i])} \cup {p.ord : p \in {q \in CondemnedSet(sn, claimed) : ~Healthy(q)}}
  IN IF U = {} THEN -1 ELSE MinOf(U)

RECURSIVE CondemnedLoop(_, _, _, _, _, _)
CondemnedLoop(sn, todo, fu, cur, upd, acc) ==
  IF todo = {} THEN acc
  ELSE LET t    == CHOOSE p \in todo : \A q \in todo : p.ord >= q.ord
           mono == Mono(sn.set) IN
       IF t.term THEN (IF mono THEN [acc EXCEPT !.stop = TRUE] ELSE CondemnedLoop(sn, todo \ {t}, fu, cur, upd, acc))
       ELSE IF ~RunningReady(t) /\ mono /\ t.ord # fu THEN [acc EXCEPT !.stop = TRUE]
       ELSE LET st2 == [acc.st EXCEPT !.current = IF t.rev = cur THEN @ - 1 ELSE @,
                                      !.updated = IF t.rev = upd THEN @ - 1 ELSE @]
                a2  == Push(acc, <<DeletePodCall(sn, t, "scale")>>, st2) IN
            IF mono THEN [a2 EXCEPT !.stop = TRUE] ELSE CondemnedLoop(sn, todo \ {t}, fu, cur, upd, a2)

RECURSIVE UpdateLoop(_, _, _, _, _)
UpdateLoop(sn, cur, upd, t, acc) ==
  IF t < UpdateMin(sn.set) THEN acc
  ELSE IF t \notin DOMAIN acc.reps THEN UpdateLoop(sn, cur, upd, t - 1, acc)
  ELSE LET p == acc.reps[t] IN
       IF p.rev # upd /\ ~Terminating(p) THEN
            Push(acc, <<DeletePodCall(sn, p, "update")>>, [acc.st EXCEPT !.current = IF p.rev = cur THEN @ - 1 ELSE @])
       ELSE IF ~Healthy(p) THEN acc
       ELSE UpdateLoop(sn, cur, upd, t - 1, acc)

\* status as written by updateStatefulSetStatus (completeRollingUpdate, inconsistentStatus)
FinalStatus(set, st, cur, upd, coll) ==
  LET complete == set.strat = "RollingUpdate" /\ st.updated = st.replicas /\ st.ready = st.replicas IN
  [obsGen |-> set.gen, replicas |-> st.replicas, ready |-> st.ready,
   current |-> IF complete THEN st.updated ELSE st.current, updated |-> st.updated,
   curRev |-> IF complete THEN upd ELSE cur, updRev |-> upd, collisions |-> coll]

Inconsistent(set, fs) ==
  \/ fs.obsGen > set.status.obsGen
  \/ fs.replicas # set.status.replicas \/ fs.current # set.status.current
  \/ fs.ready # set.status.ready \/ fs.updated # set.status.updated
  \/ fs.curRev # set.status.curRev \/ fs.updRev # set.status.updRev

StatusCall(set, fs) ==
  CallS("update", "statefulsets/status", set.name, "",
        <<fs.obsGen, fs.replicas, fs.ready, fs.current, fs.updated, fs.collisions>>, <<fs.curRev, fs.updRev>>)

\* UpdateStatus carries the cached object's resourceVersion and UID.  If the stored object is gone the write
\* fails NotFound; if it moved on (or was re-created) it fails Conflict.  RetryOnConflict (5 steps) re-reads the
\* CACHE, so with a stale cache every attempt conflicts; an injected conflict with a fresh cache is retried once.
RECURSIVE StatusAttempts(_, _, _, _, _)
StatusAttempts(sn, sc, base, j, acc) ==
  LET nat == IF ~sn.fresh.exists THEN "NotFound" ELSE IF ~sn.fresh.sameUid \/ ~sn.fresh.rvSame THEN "Conflict" ELSE "ok"
      c   == At(sn, base + j, WithResult(sc, nat)) IN
  IF IsOK(c) THEN [calls |-> Append(acc, c), err |-> FALSE]
  ELSE IF IsConflict(c) /\ j < 5 THEN StatusAttempts(sn, sc, base, j + 1, Append(acc, c))
  ELSE [calls |-> Append(acc, c), err |-> TRUE]

\* truncateHistory
Truncate(set, claimed, sorted, cur, upd) ==
  LET live == {cur, upd} \cup {p.rev : p \in SeqToSet(claimed)}
      hist == SelectSeq(sorted, LAMBDA x : x.name \notin live)
      n    == Len(hist) - set.histLimit
  IN IF n <= 0 THEN <<>> ELSE [k \in 1..n |-> Call("delete", "controllerrevisions", hist[k].name, "", <<>>)]

\* Execute the pod section call by call (positions base+1, base+2, ...).  It stops at the first call that fails, except:
\*  - a failing claim create still lets the sibling claims of that pod go out (errors are aggregated), then it stops;
\*  - an identity/storage update answering Conflict is retried (RetryOnConflict, 4 steps, re-reading the cache).
IsPVC(c) == c[2] = "persistentvolumeclaims"
RECURSIVE RunPods(_, _, _, _, _, _)
RunPods(sn, todo, base, done, claimFailed, tries) ==
  IF todo = <<>> THEN [calls |-> done, bad |-> claimFailed]
  ELSE LET c == At(sn, base + 1, Head(todo)) IN
       IF claimFailed /\ ~IsPVC(c) THEN [calls |-> done, bad |-> TRUE]
       ELSE IF IsDied(c) THEN [calls |-> Append(done, c), bad |-> TRUE]
       ELSE IF IsOK(c) THEN RunPods(sn, Tail(todo), base + 1, Append(done, c), claimFailed, 1)
       ELSE IF IsPVC(c) THEN RunPods(sn, Tail(todo), base + 1, Append(done, c), TRUE, 1)
       ELSE IF c[1] = "update" /\ c[2] = "pods" /\ IsConflict(c) /\ tries < 4 /\ EvictAt(sn, base + 1, "pod") THEN
            \* the pod cannot be read again from the cache: the same update is sent again (nothing else is redone)
            RunPods(sn, todo, base + 1, Append(done, c), FALSE, tries + 1)
       ELSE IF c[1] = "update" /\ c[2] = "pods" /\ IsConflict(c) /\ tries < 4 THEN
            \* the retry runs the whole closure again: claims this attempt created are still missing from the claim
            \* cache, are created again, answer AlreadyExists, and that fails the update for good
            LET n  == Len(done)
                st == {j \in 1..n : \A k \in j..n : IsPVC(done[k])}
                again == IF st = {} THEN <<>> ELSE [k \in 1..(n - MinOf(st) + 1) |-> WithResult(done[MinOf(st) + k - 1], "AlreadyExists")]
            IN RunPods(sn, again \o todo, base + 1, Append(done, c), FALSE, tries + 1)
       ELSE [calls |-> Append(done, c), bad |-> TRUE]

UpdateSet(sn, claimed, revs, base) ==
  LET set   == sn.set
      rv    == Revisions(sn, revs, base)
      cur   == rv.cur
      upd   == rv.upd
      ls    == LoopSlots(set.replicas, set.slots, {})
      bound == ls[1]
      dset  == (0 .. (bound - 1)) \ ls[2]
      a0    == [calls |-> <<>>, st |-> Census(claimed, cur, upd), stop |-> FALSE,
                reps |-> [i \in {} |-> 0]]
      \* the replicas slice holds a pod (existing or to be created) for every desired ordinal
      reps0 == [i \in dset |-> IF Present(claimed, i) THEN PodAt(claimed, i)
                                    ELSE NewPod(set, i, CreateRev(set, cur, upd, i))]
      a1    == IF set.deleting THEN [a0 EXCEPT !.stop = TRUE]
               ELSE ReplicaLoop(sn, claimed, cur, upd, 0, bound, [a0 EXCEPT !.reps = reps0])
      a2    == IF a1.stop THEN a1
               ELSE CondemnedLoop(sn, CondemnedSet(sn, claimed), FirstUnhealthy(sn, claimed, reps0), cur, upd, a1)
      a3    == IF a2.stop \/ set.strat = "OnDelete" THEN a2 ELSE UpdateLoop(sn, cur, upd, bound - 1, a2)
      b1    == base + Len(rv.calls)
      rp    == RunPods(sn, a3.calls, b1, <<>>, FALSE, 1)
      pcs   == rp.calls
      fs    == FinalStatus(set, a3.st, cur, upd, rv.coll)
      b2    == b1 + Len(pcs)
      sa    == IF Inconsistent(set, fs) THEN StatusAttempts(sn, StatusCall(set, fs), b2, 1, <<>>) ELSE [calls |-> <<>>, err |-> FALSE]
      b3    == b2 + Len(sa.calls)
      tr0   == Overlay(sn, Truncate(set, claimed, rv.sorted, cur, upd), b3)
      tbad  == FirstBad(tr0)
      died(cs) == \E k \in 1..Len(cs) : IsDied(cs[k])
  IN IF ListFault(sn, {3, 4}) THEN [calls |-> <<>>, res |-> IF ListDied(sn, {3, 4}) THEN "died" ELSE "err"]
     ELSE IF rv.err THEN [calls |-> rv.calls, res |-> IF died(rv.calls) THEN "died" ELSE "err"]
     ELSE IF rp.bad THEN [calls |-> rv.calls \o pcs, res |-> IF died(pcs) THEN "died" ELSE "err"]
     ELSE IF sa.err THEN [calls |-> rv.calls \o pcs \o sa.calls, res |-> IF died(sa.calls) THEN "died" ELSE "err"]
     ELSE IF tbad > 0 THEN [calls |-> rv.calls \o pcs \o sa.calls \o SubSeq(tr0, 1, tbad),
                            res |-> IF died(SubSeq(tr0, 1, tbad)) THEN "died" ELSE "err"]
     ELSE [calls |-> rv.calls \o pcs \o sa.calls \o tr0, res |-> "ok"]

---------------------------------------------------------------------------------------
(* sync                                                                                *)

Sync(sn) ==
  IF ~sn.set.cached \/ sn.set.paused \/ ~sn.set.selectorOK THEN [calls |-> <<>>, res |-> "ok"]
  ELSE LET ar == AdoptRevisions(sn, 0)
           arDied == \E k \in 1..Len(ar.calls) : IsDied(ar.calls[k]) IN
       IF ar.err THEN [calls |-> ar.calls, res |-> IF arDied \/ ListDied(sn, {1, 2}) THEN "died" ELSE "err"]
       ELSE LET cp == ClaimPods(sn, Len(ar.calls)) IN
            IF cp.died THEN [calls |-> ar.calls \o cp.calls, res |-> "died"]
            ELSE IF cp.err THEN [calls |-> ar.calls \o cp.calls, res |-> "err"]
            ELSE LET us == UpdateSet(sn, cp.claimed, ar.revs, Len(ar.calls) + Len(cp.calls)) IN
                 [calls |-> ar.calls \o cp.calls \o us.calls, res |-> us.res]

Plan(sn) == Sync(sn).calls
=======================================================================================
