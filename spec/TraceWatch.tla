---------------------------------- MODULE TraceWatch --------------------------------
(***************************************************************************************)
(* C20 on the real hijacked watch: one record per schedule of source sends, consumer   *)
(* receives, Stop calls and source close, with the outcome of every operation, whether *)
(* the result channel got closed after the consumer walked away, how often the source  *)
(* was stopped, recovered panics of the relay, and (last record) the number of relay   *)
(* goroutines still alive after all schedules.                                         *)
(***************************************************************************************)
EXTENDS Watch, Json, IOUtils
Recs == ndJsonDeserialize(IOEnv.VERIF_TRACE)
VARIABLE i
TInit == i \in 1..Len(Recs) /\ src = 0 /\ sent = 0 /\ srcStopped = 0 /\ srcClosed = 0 /\ rpc = 0 /\ held = 0 /\ stopped = 0 /\ resClosed = 0
         /\ delivered = 0 /\ stops = 0 /\ gone = 0
TNext == UNCHANGED <<i, wvars>>
R == Recs[i]

\* "send:Added" -> <<"send", "Added">> : the harness writes operations as strings; decode the five kinds explicitly
OpOf(s) == CASE s = "send:Added" -> <<"send", "Added">> [] s = "send:Modified" -> <<"send", "Modified">> [] s = "send:Deleted" -> <<"send", "Deleted">>
             [] s = "send:Bookmark" -> <<"send", "Bookmark">> [] s = "send:Error" -> <<"send", "Error">>
             [] s = "recv" -> <<"recv", "">> [] s = "stop" -> <<"stop", "">> [] OTHER -> <<"close", "">>
RECURSIVE Fold(_, _, _)
Fold(s, k, outs) == IF k > Len(R.ops) THEN [s |-> s, outs |-> outs]
                    ELSE LET r == WStep(s, OpOf(R.ops[k])) IN Fold(r[1], k + 1, Append(outs, r[2]))
Model == Fold(W0, 1, <<>>)
Conf == /\ \A k \in 1..Len(R.ops) : Model.outs[k] = R.outcomes[k][1]
        /\ (R.stopped \/ R.srcEnded) => (R.resClosed = TRUE)

Kinds5 == {"Added", "Modified", "Deleted", "Bookmark", "Error"}
SentIdx == {k \in 1..Len(R.ops) : R.outcomes[k][1] = "sent"}
RecvIdx == {k \in 1..Len(R.ops) : R.outcomes[k][1] \in Kinds5}
SeqOfIdx(S) == LET f[T \in SUBSET S] == IF T = {} THEN <<>> ELSE LET m == CHOOSE x \in T : \A y \in T : x <= y IN <<m>> \o f[T \ {m}] IN f[S]
SentSeq == [k \in 1..Cardinality(SentIdx) |-> <<OpOf(R.ops[SeqOfIdx(SentIdx)[k]])[2], R.outcomes[SeqOfIdx(SentIdx)[k]][2]>>]
RecvSeq == [k \in 1..Cardinality(RecvIdx) |-> <<R.outcomes[SeqOfIdx(RecvIdx)[k]][1], R.outcomes[SeqOfIdx(RecvIdx)[k]][2]>>]

P_C20 ==
  /\ R.panics = 0                                                         \* an Error payload (or anything else) never crashes the relay
  /\ IsPrefix(RecvSeq, SentSeq)                                           \* exactly the source's events, in order, same type, same object
  /\ \A k \in RecvIdx : R.outcomes[k][3]                                  \* ... converted to the equivalent built-in object / the untouched status
  /\ R.stopped => (R.resClosed /\ R.pendingAfter = 0)                     \* after Stop the channel is closed although nobody reads
  /\ (R.srcEnded /\ ~R.stopped) => R.resClosed                            \* after the source ended a reading consumer sees the channel closed
  /\ R.resClosed => R.srcStops >= 1                                       \* and the source was stopped,
  /\ R.srcStops <= 1                                                      \* once, however often Stop was called
  /\ R.leaked = 0                                                         \* no relay goroutine is left behind
=======================================================================================
