--------------------------------- MODULE OrdinalsInd --------------------------------
(***************************************************************************************)
(* C01, unbounded in the VALUES: the slot walk of helper.GetMaxReplicaCountAndDelete-   *)
(* Slots as a state machine (one loop iteration = one step) with an inductive           *)
(* invariant that Apalache discharges for every replica count r >= 0 and every strictly  *)
(* ascending slot list of at most MaxLen ARBITRARY integers (negative, huge, int32      *)
(* extremes and beyond).  MCOrdinals (TLC) enumerates small ranges completely; this      *)
(* module removes the range bound, keeping only a bound on the number of slots.         *)
(*                                                                                     *)
(*   apalache-mc check --init=IndInit --inv=IndInv  --length=1 OrdinalsInd.tla  (step)  *)
(*   apalache-mc check --init=Init    --inv=IndInv  --length=0 OrdinalsInd.tla  (base)  *)
(*   apalache-mc check --init=IndInit --inv=Final   --length=0 OrdinalsInd.tla  (use)   *)
(*                                                                                     *)
(* Final states the three facts from which "Ordinals = (0..bound-1) \ eff is the set of *)
(* the r least non-negative integers that are not slots" follows by arithmetic alone    *)
(* (lemma FinalImpliesDesired, checked by TLC on a bounded range in MCOrdinals).        *)
(***************************************************************************************)
EXTENDS Integers, FiniteSets

MaxLen == 10

VARIABLES
  \* @type: Int;
  r,
  \* @type: Int -> Int;
  slots,        \* deleteSlotsCopy.List(): ascending, duplicate free (sets.Int32); positions 1..len are meaningful
  \* @type: Int;
  len,
  \* @type: Int;
  i,            \* iterations done
  \* @type: Int;
  bound,        \* replicaCount
  \* @type: Set(Int);
  eff           \* slots kept so far (deleteSlotsCopy minus the deleted ones, among the first i)

Idx == 1..MaxLen

Ascending == \A a \in Idx : \A b \in Idx : (a < b /\ b <= len) => slots[a] < slots[b]

TypeOK == /\ r >= 0
          /\ len >= 0 /\ len <= MaxLen
          /\ Ascending
          /\ i >= 0 /\ i <= len

Init == /\ r \in Nat
        /\ slots \in [Idx -> Int] /\ len \in 0..MaxLen /\ Ascending
        /\ i = 0 /\ bound = r /\ eff = {}

Next == /\ i < len
        /\ LET s == slots[i + 1] IN
             IF s >= 0 /\ s < bound
               THEN bound' = bound + 1 /\ eff' = eff \cup {s}
               ELSE bound' = bound     /\ eff' = eff
        /\ i' = i + 1
        /\ UNCHANGED <<r, slots, len>>

Processed == {slots[k] : k \in {k \in Idx : k <= i}}

IndInv == /\ TypeOK
          /\ bound = r + Cardinality(eff)
          /\ eff \subseteq Processed
          /\ \A s \in eff : s >= 0 /\ s < bound
          /\ \A s \in Processed : (s >= 0 /\ s < bound) => s \in eff

\* @type: () => Bool;
IndInit == /\ r \in Int /\ i \in Int /\ bound \in Int
           /\ slots \in [Idx -> Int] /\ len \in Int
           /\ eff \in SUBSET {slots[k] : k \in {k \in Idx : k <= len}}
           /\ IndInv

All == {slots[k] : k \in {k \in Idx : k <= len}}

\* at loop exit: bound = r + |eff|, eff = the slots inside [0, bound)
Final == i = len =>
           /\ bound = r + Cardinality(eff)
           /\ eff = {s \in All : s >= 0 /\ s < bound}
=======================================================================================
