-------------------------------- MODULE MCOwnership --------------------------------
(***************************************************************************************)
(* Design check on the ownership domains (C10, C11): pods and ControllerRevisions with *)
(* every combination of owner (this set, same name other UID, another controller,     *)
(* none), label match, name shape and terminating flag, for a set that may be paused, *)
(* being deleted, or stale with respect to the API (gone / re-created / deleting).    *)
(* Mirrors harness/domains2.go OwnPodsDomain and OwnRevsDomain.                        *)
(***************************************************************************************)
EXTENDS Props
CONSTANTS Mode,      \* "pods" or "revs"
          NPods
VARIABLES pol, del, paused, fresh, rep, hl, tmpl, pods, revs, lvl
vars == <<pol, del, paused, fresh, rep, hl, tmpl, pods, revs, lvl>>

Owners == {"self", "stale", "other", "none"}
Shapes == {"foo-%", "foo-%-x", "x-foo-%", "foox-%", "foo-db-%"}
Absent == [present |-> FALSE]
PodChoices == {Absent} \cup [present : {TRUE}, shape : Shapes, owner : Owners, match : BOOLEAN, term : BOOLEAN]
RevChoices == {Absent} \cup [present : {TRUE}, owner : Owners, labels : {"sel", "marker", "both"}]

PodNameOf(o, sh) == CASE sh = "foo-%"   -> "foo-" \o ToString(o)
                      [] sh = "foo-%-x" -> "foo-" \o ToString(o) \o "-x"
                      [] sh = "x-foo-%" -> "x-foo-" \o ToString(o)
                      [] sh = "foo-db-%" -> "foo-db-" \o ToString(o)
                      [] OTHER          -> "foox-" \o ToString(o)
MkPod(o, c) == [new |-> FALSE, name |-> PodNameOf(o, c.shape), ord |-> IF c.shape = "foo-%-x" THEN -1 ELSE o,
                member |-> c.shape = "foo-%", match |-> c.match, owner |-> c.owner, phase |-> "Running", ready |-> TRUE,
                term |-> c.term, rev |-> "t2.0", identOK |-> c.shape = "foo-%", storOK |-> c.shape # "foo-%-x", uidOK |-> TRUE]
PodSeq == SetToSortSeq({MkPod(o, pods[o]) : o \in {x \in DOMAIN pods : pods[x].present}}, LAMBDA a, b : a.ord < b.ord \/ (a.ord = b.ord /\ a.name # b.name /\ a.member))

TmplOf(k) == "t" \o ToString(k)
MkRev(k, c) == [name |-> TmplOf(k) \o ".0", tmpl |-> TmplOf(k), num |-> k + 1, created |-> 100 * (k + 1), owner |-> c.owner,
                marker |-> c.labels \in {"marker", "both"}, sel |-> c.labels \in {"sel", "both"}, rank |-> k + 1]
StdRevs == << [name |-> "t0.0", tmpl |-> "t0", num |-> 1, created |-> 100, owner |-> "self", marker |-> FALSE, sel |-> TRUE, rank |-> 1],
              [name |-> "t1.0", tmpl |-> "t1", num |-> 2, created |-> 200, owner |-> "self", marker |-> FALSE, sel |-> TRUE, rank |-> 2],
              [name |-> "t2.0", tmpl |-> "t2", num |-> 3, created |-> 300, owner |-> "self", marker |-> FALSE, sel |-> TRUE, rank |-> 3] >>
RevSeq == IF Mode = "pods" THEN StdRevs
          ELSE SetToSortSeq({MkRev(k, revs[k]) : k \in {x \in DOMAIN revs : revs[x].present}}, LAMBDA a, b : a.rank < b.rank)
OnePod == << [new |-> FALSE, name |-> "foo-0", ord |-> 0, member |-> TRUE, match |-> TRUE, owner |-> "self", phase |-> "Running",
              ready |-> TRUE, term |-> FALSE, rev |-> "t2.0", identOK |-> TRUE, storOK |-> TRUE, uidOK |-> TRUE] >>

SnOf ==
  [set |-> [name |-> "foo", cached |-> TRUE, replicas |-> rep, slots |-> {}, policy |-> pol, strat |-> "RollingUpdate",
            ruBlock |-> TRUE, partPresent |-> TRUE, part |-> 0, tmpl |-> tmpl, paused |-> paused, deleting |-> del,
            histLimit |-> hl, selectorOK |-> TRUE, gen |-> 2,
            status |-> [obsGen |-> 1, replicas |-> 0, ready |-> 0, current |-> 0, updated |-> 0, collisions |-> 0,
                        curRev |-> "t2.0", updRev |-> "t2.0"], claims |-> <<>>],
   pods |-> IF Mode = "pods" THEN PodSeq ELSE OnePod, revs |-> RevSeq, pvcs |-> {},
   fresh |-> [exists |-> fresh # "absent", sameUid |-> fresh \in {"ok", "deleting"},
              deleting |-> (fresh = "deleting" \/ (del /\ fresh = "ok")), rvSame |-> fresh = "ok"],
   cacheIntact |-> TRUE,
   apods |-> ApiFromCache(IF Mode = "pods" THEN PodSeq ELSE OnePod), apvcs |-> {}, faults |-> <<>>]

Init == /\ pol \in (IF Mode = "pods" THEN {"OrderedReady", "Parallel"} ELSE {"OrderedReady"})
        /\ del \in BOOLEAN /\ paused \in BOOLEAN /\ fresh \in {"ok", "absent", "otherUid", "deleting"}
        /\ rep \in (IF Mode = "pods" THEN 1..2 ELSE {1})
        /\ hl \in (IF Mode = "pods" THEN {10} ELSE {0, 1})
        /\ tmpl \in (IF Mode = "pods" THEN {"t2"} ELSE {"t2", "t3"})
        /\ pods = [o \in 0..(NPods - 1) |-> Absent] /\ revs = [k \in 0..2 |-> Absent] /\ lvl = 0
Next == /\ lvl = 0 /\ lvl' = 1
        /\ IF Mode = "pods" THEN pods' \in [0..(NPods - 1) -> PodChoices] /\ UNCHANGED revs
                            ELSE revs' \in [0..2 -> RevChoices] /\ UNCHANGED pods
        /\ UNCHANGED <<pol, del, paused, fresh, rep, hl, tmpl>>

M == Sync(SnOf)
I_C09 == C09(SnOf, M.calls, M.res)
I_C10 == C10(SnOf, M.calls, M.res)
I_C11 == C11(SnOf, M.calls)
I_C12 == C12(SnOf, M.calls)
I_C13 == C13(SnOf, M.calls, M.res)
I_C03 == C03(SnOf, M.calls)
I_C04 == C04(SnOf, M.calls)
=======================================================================================
