------------------------------------ MODULE Watch -----------------------------------
(***************************************************************************************)
(* C20.  The hijacked watch (client/apis/apps/v1/helper/hijack.go, hijackWatch):       *)
(* a relay goroutine receives events from the underlying watch over an unbuffered      *)
(* channel, converts StatefulSet payloads, and offers them to the consumer over an     *)
(* unbuffered result channel; Stop (callable any number of times, by the consumer and  *)
(* by the relay itself on exit) closes a done channel and stops the source.            *)
(*                                                                                     *)
(* Three processes: the source (sends its events in order, may end, reacts to Stop by  *)
(* closing its channel), the relay (recv / send / exit - its blocking points), the     *)
(* consumer (receives, calls Stop up to MaxStops times, or walks away at any moment).  *)
(* Channels are rendezvous: a send and the matching receive are one step.              *)
(***************************************************************************************)
EXTENDS Integers, Sequences, FiniteSets, TLC

CONSTANTS Kinds,      \* event types, e.g. {"Added", "Modified", "Deleted", "Bookmark", "Error"}
          MaxLen,     \* the source has at most MaxLen events to send
          MaxStops

VARIABLES src,        \* sequence of event types the source still has to send
          sent,       \* what the source has handed to the relay so far
          srcStopped, \* Stop was called on the source (how often)
          srcClosed,  \* the source's channel is closed
          rpc,        \* relay: "recv" | "send" | "exit" | "done"
          held,       \* the event the relay is offering (when rpc = "send")
          stopped,    \* hijackWatch.stopped (done channel closed)
          resClosed,  \* the result channel is closed
          delivered,  \* what the consumer received, in order
          stops,      \* Stop calls made by the consumer
          gone        \* the consumer has walked away (never receives again)
wvars == <<src, sent, srcStopped, srcClosed, rpc, held, stopped, resClosed, delivered, stops, gone>>

Seqs(n) == UNION {[1..k -> Kinds] : k \in 0..n}
WInit == /\ src \in Seqs(MaxLen) /\ sent = <<>> /\ srcStopped = 0 /\ srcClosed = FALSE /\ rpc = "recv" /\ held = "none"
         /\ stopped = FALSE /\ resClosed = FALSE /\ delivered = <<>> /\ stops = 0 /\ gone = FALSE

\* source -> relay rendezvous
SrcSend == /\ src # <<>> /\ ~srcClosed /\ rpc = "recv"
           /\ held' = Head(src) /\ src' = Tail(src) /\ sent' = Append(sent, Head(src)) /\ rpc' = "send"
           /\ UNCHANGED <<srcStopped, srcClosed, stopped, resClosed, delivered, stops, gone>>
\* the source ends its stream, or closes its channel because it was stopped
SrcClose == /\ ~srcClosed /\ (src = <<>> \/ srcStopped > 0)
            /\ srcClosed' = TRUE /\ UNCHANGED <<src, sent, srcStopped, rpc, held, stopped, resClosed, delivered, stops, gone>>
\* relay: sees the closed source, or the done channel, while waiting for an event
RelayLeaveRecv == /\ rpc = "recv" /\ (srcClosed \/ stopped)
                  /\ rpc' = "exit" /\ UNCHANGED <<src, sent, srcStopped, srcClosed, held, stopped, resClosed, delivered, stops, gone>>
\* relay -> consumer rendezvous: every payload is relayed (an Error status too), with its type
Deliver == /\ rpc = "send" /\ ~gone /\ ~resClosed
           /\ delivered' = Append(delivered, held) /\ held' = "none" /\ rpc' = "recv"
           /\ UNCHANGED <<src, sent, srcStopped, srcClosed, stopped, resClosed, stops, gone>>
\* relay: gives up offering when the watch is stopped
RelayLeaveSend == /\ rpc = "send" /\ stopped
                  /\ rpc' = "exit" /\ held' = "none"
                  /\ UNCHANGED <<src, sent, srcStopped, srcClosed, stopped, resClosed, delivered, stops, gone>>
\* relay exit: deferred Stop (idempotent), then close(result)
RelayExit == /\ rpc = "exit"
             /\ stopped' = TRUE /\ srcStopped' = IF stopped THEN srcStopped ELSE srcStopped + 1
             /\ resClosed' = TRUE /\ rpc' = "done"
             /\ UNCHANGED <<src, sent, srcClosed, held, delivered, stops, gone>>
\* consumer
ConsStop == /\ stops < MaxStops
            /\ stops' = stops + 1 /\ stopped' = TRUE /\ srcStopped' = IF stopped THEN srcStopped ELSE srcStopped + 1
            /\ UNCHANGED <<src, sent, srcClosed, rpc, held, resClosed, delivered, gone>>
ConsLeave == /\ ~gone /\ gone' = TRUE
             /\ UNCHANGED <<src, sent, srcStopped, srcClosed, rpc, held, stopped, resClosed, delivered, stops>>

Relay  == RelayLeaveRecv \/ RelayLeaveSend \/ RelayExit
WNext  == SrcSend \/ SrcClose \/ Relay \/ Deliver \/ ConsStop \/ ConsLeave
WSpec  == WInit /\ [][WNext]_wvars /\ WF_wvars(Relay) /\ WF_wvars(SrcClose) /\ WF_wvars(Deliver)

\* C20
IsPrefix(s, t) == Len(s) <= Len(t) /\ \A k \in 1..Len(s) : s[k] = t[k]
InOrder      == IsPrefix(delivered, sent)                           \* exactly the source's events, in order, nothing invented
NoLoss       == (rpc = "recv" /\ ~stopped) => delivered = sent      \* and nothing skipped while the watch is live
StopsSource  == resClosed => srcStopped >= 1
StopOnce     == srcStopped <= 1                                      \* the source is stopped exactly once however often Stop is called
Done         == rpc = "done" /\ resClosed
CleansUp     == /\ stopped ~> Done                 \* after Stop: result channel closed, relay gone - whatever else the consumer does
                \* after the source ended: the same, unless the consumer walked away from a pending event without calling Stop
                /\ srcClosed ~> (Done \/ (gone /\ ~stopped /\ rpc = "send"))

---------------------------------------------------------------------------------------
(* The same relay as a function of harness operations, for judging recorded runs: after every operation the relay *)
(* (the only asynchronous party) runs until it blocks.  State: [q, held, stopped, closed, exited, delivered, sent]  *)
W0 == [held |-> "none", stopped |-> FALSE, closed |-> FALSE, exited |-> FALSE, delivered |-> <<>>, sent |-> <<>>, srcStops |-> 0]
\* let the relay run: blocked in recv it leaves when the source is closed or the watch stopped; blocked in send when stopped
Settle(s) == IF s.exited THEN s
             ELSE IF s.held = "none" /\ (s.closed \/ s.stopped) THEN [s EXCEPT !.exited = TRUE, !.srcStops = IF s.stopped THEN @ ELSE @ + 1, !.stopped = TRUE, !.closed = TRUE]
             ELSE IF s.held # "none" /\ s.stopped THEN [s EXCEPT !.exited = TRUE, !.held = "none", !.closed = TRUE]
             ELSE s
\* op = <<name, arg>> ; returns <<state, outcome>>
WStep(s, op) ==
  CASE op[1] = "send" -> IF s.closed \/ s.exited THEN <<s, "closed">>
                         ELSE IF s.held # "none" THEN <<s, "blocked">>
                         ELSE <<Settle([s EXCEPT !.held = op[2], !.sent = Append(@, op[2])]), "sent">>
    [] op[1] = "recv" -> IF s.held # "none" /\ ~s.exited
                         THEN <<Settle([s EXCEPT !.delivered = Append(@, s.held), !.held = "none"]), s.held>>
                         ELSE IF s.exited THEN <<s, "closed">> ELSE <<s, "none">>
    [] op[1] = "stop" -> <<Settle([s EXCEPT !.stopped = TRUE, !.srcStops = IF s.stopped THEN @ ELSE @ + 1]), "ok">>
    [] OTHER          -> <<Settle([s EXCEPT !.closed = TRUE]), "ok">>            \* "close": the source ends its stream
=======================================================================================
