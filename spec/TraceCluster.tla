--------------------------------- MODULE TraceCluster -------------------------------
(***************************************************************************************)
(* Validation of whole behaviours executed on the REAL controller (harness sim).       *)
(* Each line of VERIF_TRACE is one behaviour: the initial cluster, then for every      *)
(* action of Cluster.tla that was played (by TLC's simulator or by the seeded random   *)
(* driver) the action record and the projected cluster state after it, then the fair   *)
(* tail that drives the system to a fixed point, and the final state.                  *)
(*   B_Conf   every recorded step is the step Cluster.tla defines for that action       *)
(*            (a failure is DRIFT between model and system)                            *)
(*   B_Cxx    the history clauses of the listed properties on the recorded behaviour    *)
(***************************************************************************************)
EXTENDS Cluster, Json, IOUtils

Recs == ndJsonDeserialize(IOEnv.VERIF_TRACE)
VARIABLE i
tvars == <<vars, i>>
TInit == i \in 1..Len(Recs) /\ api = 0 /\ cache = 0 /\ budget = 0 /\ last = 0 /\ lvl = 0
TNext == UNCHANGED tvars
R == Recs[i]

AsSet(s) == {s[k] : k \in 1..Len(s)}
SetOfArr(a, rv) ==
  [replicas |-> a[3], slots |-> AsSet(a[4]), policy |-> a[5],
   strat |-> IF a[6] = "RollingUpdate" /\ ~a[7] THEN "RollingUpdateBare" ELSE a[6], part |-> a[9], tmpl |-> a[10], paused |-> a[11],
   deleting |-> a[12], histLimit |-> a[13], gen |-> a[15], rv |-> rv, nclaims |-> Len(a[18]),
   status |-> [obsGen |-> a[16][1], replicas |-> a[16][2], ready |-> a[16][3], current |-> a[16][4], updated |-> a[16][5],
               collisions |-> a[16][6], curRev |-> a[17][1], updRev |-> a[17][2]]]
PodsOfArr(arr) ==
  [o \in Ords |-> LET S == {k \in 1..Len(arr) : arr[k][2] = o} IN
                  IF S = {} THEN Absent
                  ELSE LET p == arr[CHOOSE k \in S : TRUE] IN
                       [present |-> TRUE, phase |-> p[6], ready |-> p[7], term |-> p[8], rev |-> p[9], owner |-> p[5],
                        uid |-> IF p[12] THEN 1 ELSE 2]]      \* same incarnation as the API's pod: 1; a stale one: 2
RevsOfArr(arr) == [k \in 1..Len(arr) |-> [name |-> arr[k][1], tmpl |-> arr[k][2], num |-> arr[k][3], created |-> arr[k][4],
                                           owner |-> arr[k][5], marker |-> arr[k][6], sel |-> arr[k][7], rank |-> arr[k][8]]]
\* one pod of a pending watch event (<<>>: no such pod before / after the event)
PodOfArr1(p) == IF Len(p) = 0 THEN Absent
                ELSE [present |-> TRUE, phase |-> p[6], ready |-> p[7], term |-> p[8], rev |-> p[9], owner |-> p[5], uid |-> 0]
OwedOf(x) == QueueDriven /\ \E k \in 1..Len(x.pending) : PodEventEv(PodOfArr1(x.pending[k][1]), PodOfArr1(x.pending[k][2]))
StOf(x) == [api   |-> [set |-> SetOfArr(x.set, 1), pods |-> PodsOfArr(x.pods), revs |-> RevsOfArr(x.revs), pvcs |-> AsSet(x.pvcs),
                       owed |-> OwedOf(x), clock |-> 100000],
            cache |-> [set |-> SetOfArr(x.cset, IF x.rvSame THEN 1 ELSE 0), pods |-> PodsOfArr(x.cpods), pvcs |-> AsSet(x.cpvcs), queued |-> x.queued]]

\* what is compared: everything but the absolute resourceVersion, creation stamps and name ranks
NoUid(pods) == [o \in DOMAIN pods |-> [pods[o] EXCEPT !.uid = 0]]
ViewS(s) == [set |-> [s.api.set EXCEPT !.rv = 0], pods |-> NoUid(s.api.pods),
             uidSame |-> [o \in Ords |-> s.cache.pods[o].present => (s.api.pods[o].present /\ s.api.pods[o].uid = s.cache.pods[o].uid)],
             revs |-> {<<s.api.revs[k].name, s.api.revs[k].tmpl, s.api.revs[k].num, s.api.revs[k].owner>> : k \in 1..Len(s.api.revs)},
             cset |-> [s.cache.set EXCEPT !.rv = 0], cpods |-> NoUid(s.cache.pods), rvSame |-> s.api.set.rv = s.cache.set.rv,
             pvcs |-> s.api.pvcs, cpvcs |-> s.cache.pvcs, queued |-> s.cache.queued, owed |-> s.api.owed]

ActOf(a) == IF a.act = "SetSlots" THEN [a EXCEPT !.slots = AsSet(a.slots)] ELSE a
\* a reconcile step is judged with the fault positions as recorded with the reconcile (canonical call order)
FaultsOfArr(arr) == [k \in 1..Len(arr) |-> [k |-> arr[k][1], kind |-> arr[k][2], applied |-> arr[k][3], die |-> arr[k][4], list |-> arr[k][5],
                                           evict |-> IF Len(arr[k]) >= 6 THEN arr[k][6] ELSE ""]]
ActAt(k) == LET a == ActOf(R.steps[k].act) IN
            IF a.act = "Reconcile" /\ R.steps[k].enabled THEN [act |-> "Reconcile", faults |-> FaultsOfArr(R.steps[k].faults)] ELSE a

Steps == R.steps
Before(k) == StOf(Steps[IF k = 1 THEN 1 ELSE k - 1].state)       \* (step 1 is Setup, whose logged state is the starting point)
After(k)  == StOf(Steps[k].state)
IsRec(k)  == k > 1 /\ Steps[k].act.act = "Reconcile" /\ Steps[k].enabled

\* a process death while pods are being claimed: which patches went out before it depends on the cache's iteration
\* order, which is unspecified - the step is not compared (the reconcile record itself is judged by TraceSnap)
DiedClaimingStep(k) == /\ Steps[k].act.act = "Reconcile" /\ Steps[k].enabled /\ Steps[k].res = "died"
                       /\ \E j \in 1..Len(Steps[k].calls) : Steps[k].calls[j][1] = "patch" /\ Steps[k].calls[j][2] = "pods"
                                                             /\ Steps[k].calls[j][6] \in {"Died", "DiedApplied"}
StepConf(k) ==
  LET s == Before(k) a == ActAt(k) t == After(k) IN
  IF a.act = "Setup" \/ DiedClaimingStep(k) THEN TRUE
  ELSE IF ~Steps[k].enabled THEN ViewS(t) = ViewS(s)
  \* (a cache refresh that brings nothing the model can see is a stuttering step)
  ELSE IF a.act \in {"SyncSetCache", "SyncPodCache", "SyncPvcCache"} /\ ~Guard(s, a) THEN ViewS(t) = ViewS(s)
  ELSE /\ (a.act # "Scramble" => Guard(s, a))
       /\ ViewS(Effect(s, a)) = ViewS(t)
       /\ (a.act = "Reconcile" => Steps[k].res = Sync(SnapS(s, a.faults)).res)
B_Conf == \A k \in 1..Len(Steps) : StepConf(k)

Final == StOf(R.final)
StuckS(s) == \E o \in Ords : s.api.pods[o].present /\ s.api.pods[o].phase = "Failed" /\ o \notin DesiredOf(s) /\ s.api.set.policy = "OrderedReady"

\* C02: after the fair tail the system is converged (unless the excluded case holds) and the last reconcile wrote nothing
B_C02 == /\ (ConvergedS(Final) \/ StuckS(Final))
         /\ (ConvergedS(Final) => R.quiet)
         /\ StatusTruthS(Final) /\ QuietPodsS(Final)
\* C12: at the fixed point the counters are an exact census
B_C12 == StatusTruthS(Final)
\* C03 (last clause): no reconcile of the behaviour took away a pod that was desired, live, up to date and correctly cached
B_C03 == \A k \in 1..Len(Steps) : IsRec(k) => NoCollateralStep(Before(k), After(k))
\* C07 over the behaviour: one pod at a time, and the current revision never advances early
B_C07 == \A k \in 1..Len(Steps) : IsRec(k) => (OneDownStep(Before(k), After(k)) /\ CurAdvanceStep(Before(k), After(k)))
\* C08: no reconcile of an unchanged template changed the update revision or added a revision
B_C08 == \A k \in 1..Len(Steps) : IsRec(k) => NoRestartStep(Before(k), After(k), Steps[k].res)

\* C16 end to end: driven by its work queue alone (no resync) the controller reaches the fixed point, and the queue is
\* empty there; no failed reconcile lost its retry
\* ... and at every step: any change of the set that reaches the cache enqueues it; a pod event enqueues it exactly when
\* the pod is (or was) controlled by the set or is an orphan the set selects (PodEventEnq is C16's table for one set)
B_C16 == /\ (ConvergedS(Final) \/ StuckS(Final))
         /\ ~Final.cache.queued
         /\ \A k \in 1..Len(Steps) : IsRec(k) => (Steps[k].res = "err" => Steps[k].state.queued)
         /\ \A k \in 2..Len(Steps) : (Steps[k].enabled /\ Steps[k].act.act = "SyncSetCache" /\ Before(k).cache.set # Before(k).api.set)
                                          => After(k).cache.queued
         /\ \A k \in 2..Len(Steps) : (Steps[k].enabled /\ Steps[k].act.act = "SyncPodCache")
                                          => After(k).cache.queued = (Before(k).cache.queued \/ Before(k).api.owed)

\* C06 (history clause): no step of the behaviour (reconciles, scale-in, scale-out, restarts) removes or replaces a claim -
\* the claim objects (name and uid) only ever grow; a pod created by a reconcile finds its claim in place
PvcIds(x) == {<<x.pvcuids[k][1], x.pvcuids[k][2]>> : k \in 1..Len(x.pvcuids)}
B_C06 == /\ \A k \in 2..Len(Steps) : PvcIds(Steps[k - 1].state) \subseteq PvcIds(Steps[k].state)
         /\ \A k \in 1..Len(R.tail) : PvcIds(IF k = 1 THEN Steps[Len(Steps)].state ELSE R.tail[k - 1].state) \subseteq PvcIds(R.tail[k].state)
         /\ \A k \in 1..Len(Steps) : IsRec(k) => ClaimsFirstStep(Before(k), After(k))
         /\ \A k \in 1..Len(R.tail) : ClaimsFirstStep(StOf(IF k = 1 THEN Steps[Len(Steps)].state ELSE R.tail[k - 1].state), StOf(R.tail[k].state))

\* C18: after a migration no reconcile adds a revision or takes away a pod that is up to date; in the end everything is adopted
B_C18 == /\ \A k \in 1..Len(Steps) : IsRec(k) => (NoNewRevisionStep(Before(k), After(k)) /\ PodKeptStep(Before(k), After(k)))
         /\ (ConvergedS(Final) => AllAdoptedS(Final))
         /\ (ConvergedS(Final) \/ StuckS(Final))

\* C09 / C11: the final state equals the one of the twin run (without the injected faults / without the pause)
TmplAt(s, o) == TmplOfRevS(s, s.api.pods[o].rev)
Spec6(s) == <<s.api.set.replicas, s.api.set.slots, s.api.set.policy, s.api.set.strat, s.api.set.part, s.api.set.tmpl>>
EquivFinal(f, g) ==
  (ConvergedS(f) /\ ConvergedS(g)) =>
    /\ Spec6(f) = Spec6(g)
    /\ \A o \in Ords : /\ f.api.pods[o].present = g.api.pods[o].present
                       /\ f.api.pods[o].present =>
                            /\ f.api.pods[o].phase = g.api.pods[o].phase /\ f.api.pods[o].ready = g.api.pods[o].ready
                            /\ (f.api.set.strat \in {"RollingUpdate", "RollingUpdateBare"} /\ o >= f.api.set.part) => TmplAt(f, o) = TmplAt(g, o)
    /\ f.api.set.status.replicas = g.api.set.status.replicas /\ f.api.set.status.ready = g.api.set.status.ready
    /\ TmplOfRevS(f, f.api.set.status.updRev) = TmplOfRevS(g, g.api.set.status.updRev)
HasTwin(x) == DOMAIN x # {}
B_C09 == HasTwin(R.twinFaultFree) => (ConvergedS(Final) <=> ConvergedS(StOf(R.twinFaultFree))) /\ EquivFinal(Final, StOf(R.twinFaultFree))
B_C11 == HasTwin(R.twinNoPause) => (ConvergedS(Final) <=> ConvergedS(StOf(R.twinNoPause))) /\ EquivFinal(Final, StOf(R.twinNoPause))
=======================================================================================
