INIT TInit
NEXT TNext
CHECK_DEADLOCK FALSE
INVARIANT Conf
INVARIANT P_C03
INVARIANT P_C04
INVARIANT P_C05
INVARIANT P_C06
INVARIANT P_C07
INVARIANT P_C10
INVARIANT P_C11
INVARIANT P_C12
INVARIANT P_C13
INVARIANT P_C14
INVARIANT P_C15
