----------------------------------- MODULE Props -----------------------------------
(***************************************************************************************)
(* The listed properties that speak about ONE reconcile, written once, over            *)
(*   sn     the snapshot the reconcile read            (record, see Reconcile.tla)     *)
(*   calls  the ordered API calls it issued            <<verb, res, name, a, k, result>> *)
(*   res    its return value                           "ok" | "err" | "panic"          *)
(* They are evaluated (a) on the specification's own Sync(sn) for every snapshot of a  *)
(* bounded domain (design check) and (b) on calls RECORDED FROM THE REAL CONTROLLER    *)
(* (trace check).  They deliberately do not use Sync: each one re-states what the      *)
(* property says in terms of what can be observed, so that an implementation that      *)
(* deviates from the model but still satisfies the property is not reported.           *)
(***************************************************************************************)
EXTENDS Reconcile

Verb(c)   == c[1]
Res(c)    == c[2]
Name(c)   == c[3]
Det(c)    == c[4]
Ints(c)   == c[5]
Result(c) == c[6]
OK(c)     == c[6] = "ok"

Idx(calls) == 1..Len(calls)
IsPodDelete(c)  == Verb(c) = "delete" /\ Res(c) = "pods"
IsPodCreate(c)  == Verb(c) = "create" /\ Res(c) = "pods"
IsPodUpdate(c)  == Verb(c) = "update" /\ Res(c) = "pods"
IsPodPatch(c)   == Verb(c) = "patch"  /\ Res(c) = "pods"
IsClaimCall(c)  == Res(c) = "persistentvolumeclaims"
IsStatus(c)     == Verb(c) = "update" /\ Res(c) = "statefulsets/status"
IsRevCreate(c)  == Verb(c) = "create" /\ Res(c) = "controllerrevisions"
IsRevUpdate(c)  == Verb(c) = "update" /\ Res(c) = "controllerrevisions"
IsRevPatch(c)   == Verb(c) = "patch"  /\ Res(c) = "controllerrevisions"
IsRevDelete(c)  == Verb(c) = "delete" /\ Res(c) = "controllerrevisions"
IsFreshGet(c)   == Verb(c) = "get"    /\ Res(c) = "statefulsets"
IsWrite(c)      == Verb(c) \in {"create", "update", "patch", "delete"}

PodsOf(sn)      == SeqToSet(sn.pods)
NamedPod(sn, n) == {p \in PodsOf(sn) : p.name = n}

\* "part of set S" per C10: name S-<ordinal>, labels match, controlled by S or an adoptable orphan
\* (a set that is being deleted adopts nothing, so orphans are not part of it then)
IsPartOf(sn, p) == p.member /\ p.match /\ (p.owner = "self" \/ (p.owner = "none" /\ ~p.term /\ ~sn.set.deleting))
Parts(sn)   == {p \in PodsOf(sn) : IsPartOf(sn, p)}
PartAt(sn, i) == {p \in Parts(sn) : p.ord = i}
D(sn)       == Desired(sn.set.replicas, {s \in sn.set.slots : s >= 0})   \* the declarative desired set (C01)

HealthyP(p)  == p.phase = "Running" /\ p.ready /\ ~p.term
RunReadyP(p) == p.phase = "Running" /\ p.ready
DeadP(p)     == p.phase \in {"Failed", "Succeeded"}

Partition(sn) == IF sn.set.ruBlock /\ sn.set.partPresent /\ sn.set.part > 0 THEN sn.set.part ELSE 0

\* the update revision the reconcile worked with, as observed: the one it wrote, else the one it
\* created / renumbered, else the one already recorded in the cached status
LastIdx(calls, P(_)) == LET S == {k \in Idx(calls) : P(calls[k])} IN IF S = {} THEN 0 ELSE MaxOf(S)
SplitAt(s, ch) == LET k == CHOOSE j \in 1..Len(s) : s[j] = ch IN <<SubSeq(s, 1, k - 1), SubSeq(s, k + 1, Len(s))>>
UpdObs(sn, calls) ==
  LET ks == LastIdx(calls, LAMBDA c : IsStatus(c))
      kc == LastIdx(calls, LAMBDA c : IsRevCreate(c))
      kr == LastIdx(calls, LAMBDA c : IsRevUpdate(c) /\ Det(c) = "renumber")
      \* neither written nor made in this reconcile: the recorded one if it is a listed revision carrying the set's
      \* template, otherwise the newest listed revision that carries it (C08: the update revision mirrors the template)
      same == {x \in SeqToSet(Listed(sn.revs)) : x.tmpl = sn.set.tmpl}
  IN IF ks > 0 THEN calls[ks][7][2]
     ELSE IF kc > 0 THEN Name(calls[kc])
     ELSE IF kr > 0 THEN Name(calls[kr])
     ELSE IF \E x \in same : x.name = sn.set.status.updRev THEN sn.set.status.updRev
     ELSE IF same # {} THEN (CHOOSE x \in same : \A y \in same : y = x \/ RevLess(y, x)).name
     ELSE sn.set.status.updRev
\* the current revision the reconcile worked with: the recorded one if it names a listed revision
ListedNames(sn) == {x.name : x \in SeqToSet(Listed(sn.revs))}
CurObs(sn, calls) == IF sn.set.status.curRev \in ListedNames(sn) THEN sn.set.status.curRev ELSE UpdObs(sn, calls)

\* a create of the same pod earlier in this reconcile (a pod the reconcile itself made)
CreatedBefore(calls, k, n) == {j \in 1..(k - 1) : IsPodCreate(calls[j]) /\ Name(calls[j]) = n /\ OK(calls[j])}
DeletedBefore(calls, k, n) == {j \in 1..(k - 1) : IsPodDelete(calls[j]) /\ Name(calls[j]) = n /\ OK(calls[j])}

\* view of the pod a delete call targets: the snapshot's pod, or one created earlier in this reconcile
Target(sn, calls, k) ==
  LET n == Name(calls[k]) IN
  IF CreatedBefore(calls, k, n) # {} THEN
       LET j == MaxOf(CreatedBefore(calls, k, n)) IN
       [known |-> TRUE, ord |-> Ints(calls[j])[1], rev |-> Det(calls[j]), dead |-> FALSE, fresh |-> TRUE, part |-> TRUE]
  ELSE IF NamedPod(sn, n) # {} THEN
       LET p == CHOOSE q \in NamedPod(sn, n) : TRUE IN
       [known |-> TRUE, ord |-> p.ord, rev |-> p.rev, dead |-> DeadP(p), fresh |-> FALSE, part |-> IsPartOf(sn, p)]
  ELSE [known |-> FALSE, ord |-> -1, rev |-> "", dead |-> FALSE, fresh |-> FALSE, part |-> FALSE]

\* classification of a pod delete, from what is observable
IsCondemnedDelete(sn, calls, k) == LET t == Target(sn, calls, k) IN t.known /\ t.ord \notin D(sn)
IsDeadDelete(sn, calls, k)      == LET t == Target(sn, calls, k) IN t.known /\ t.ord \in D(sn) /\ t.dead
IsUpdateDelete(sn, calls, k)    == LET t == Target(sn, calls, k) IN t.known /\ t.ord \in D(sn) /\ ~t.dead

\* next call on pods after k (claim calls in between do not count)
NextPodCall(calls, k) == LET S == {j \in (k + 1)..Len(calls) : Res(calls[j]) = "pods"} IN IF S = {} THEN 0 ELSE MinOf(S)

---------------------------------------------------------------------------------------
(* C03 - only pods that must go are deleted                                            *)
\* up to date: the pod's revision is the one stored revision that records the set's template (whatever revision the
\* reconcile may have declared the update revision)
UpToDateRev(sn, rev) == LET same == {x \in SeqToSet(sn.revs) : x.tmpl = sn.set.tmpl} IN
                        Cardinality(same) = 1 /\ \E x \in same : x.name = rev
DeleteJustified(sn, calls, k) ==
  LET t == Target(sn, calls, k) u == UpdObs(sn, calls) IN
  /\ t.known /\ t.part
  /\ \/ t.ord \notin D(sn)                                                         \* (a)
     \/ /\ t.dead                                                                   \* (b) replaced at once
        /\ \/ ~OK(calls[k])
           \/ LET j == NextPodCall(calls, k) IN
              j > 0 /\ IsPodCreate(calls[j]) /\ Name(calls[j]) = Name(calls[k])
           \/ \E j \in (k + 1)..Len(calls) : IsClaimCall(calls[j]) /\ ~OK(calls[j])   \* claim failed: no pod create (C06)
     \/ /\ sn.set.strat = "RollingUpdate" /\ t.ord >= Partition(sn) /\ t.rev # u  \* (c)
        /\ ~UpToDateRev(sn, t.rev)          \* "a live pod of the desired set that is up to date is never deleted"
C03Raw(sn, calls) == \A k \in Idx(calls) : IsPodDelete(calls[k]) => DeleteJustified(sn, calls, k)

(* C04 - creates only at vacant desired ordinals                                       *)
CreateJustified(sn, calls, k) ==
  LET c == calls[k] i == Ints(c)[1] occ == PartAt(sn, i) IN
  /\ i \in D(sn) /\ i \notin sn.set.slots /\ i >= 0
  /\ ~sn.set.deleting
  /\ Name(c) = PodName(sn.set, i)
  /\ \/ occ = {}
     \/ \A p \in occ : DeadP(p) /\ DeletedBefore(calls, k, p.name) # {}
  /\ CreatedBefore(calls, k, Name(c)) = {}
C04Raw(sn, calls) == \A k \in Idx(calls) : IsPodCreate(calls[k]) => CreateJustified(sn, calls, k)

(* C05 - OrderedReady discipline                                                       *)
TouchedOrds(sn, calls) ==
  {Ints(calls[k])[1] : k \in {j \in Idx(calls) : IsPodCreate(calls[j])}} \cup
  {Target(sn, calls, k).ord : k \in {j \in Idx(calls) : IsPodDelete(calls[j])}}
AllDesiredHealthy(sn)  == \A j \in D(sn) : PartAt(sn, j) # {} /\ \A p \in PartAt(sn, j) : HealthyP(p)
AllDesiredRunReady(sn) == \A j \in D(sn) : PartAt(sn, j) # {} /\ \A p \in PartAt(sn, j) : RunReadyP(p)
CondemnedPresent(sn)   == {p \in Parts(sn) : p.ord \notin D(sn)}
C05Raw(sn, calls) ==
  sn.set.policy # "Parallel" =>
    /\ Cardinality(TouchedOrds(sn, calls)) <= 1
    /\ \A k \in Idx(calls) :
         /\ IsPodCreate(calls[k]) =>
              \A j \in D(sn) : j < Ints(calls[k])[1] => (PartAt(sn, j) # {} /\ \A p \in PartAt(sn, j) : HealthyP(p))
         /\ (IsPodDelete(calls[k]) /\ IsCondemnedDelete(sn, calls, k)) =>
              /\ AllDesiredRunReady(sn)
              /\ \A q \in CondemnedPresent(sn) : q.ord <= Target(sn, calls, k).ord
         /\ (IsPodDelete(calls[k]) /\ IsUpdateDelete(sn, calls, k)) =>
              /\ CondemnedPresent(sn) = {}
              /\ AllDesiredHealthy(sn)

(* C07 - rolling update, partition, OnDelete                                           *)
UpdateDeletes(sn, calls) == {k \in Idx(calls) : IsPodDelete(calls[k]) /\ IsUpdateDelete(sn, calls, k)}
\* one pod at a time, from the top: at most one update delete per reconcile, and only when every desired pod above the
\* target is there, at the update revision, Running, Ready and not terminating (so none of them is still down for update)
OneAtATime(sn, calls) ==
  LET u == UpdObs(sn, calls) IN
  /\ Cardinality(UpdateDeletes(sn, calls)) <= 1
  /\ \A k \in UpdateDeletes(sn, calls) :
       LET t == Target(sn, calls, k) IN
       \A j \in D(sn) : j > t.ord => (PartAt(sn, j) # {} /\ \A p \in PartAt(sn, j) : HealthyP(p) /\ p.rev = u)
C07Raw(sn, calls) ==
  LET u == UpdObs(sn, calls) cu == CurObs(sn, calls) IN
  /\ Cardinality(UpdateDeletes(sn, calls)) <= 1
  /\ \A k \in UpdateDeletes(sn, calls) :
       LET t == Target(sn, calls, k) IN
       /\ sn.set.strat = "RollingUpdate"
       /\ t.ord >= Partition(sn)
       /\ t.rev # u
       /\ \A j \in D(sn) : j > t.ord =>
            \/ (PartAt(sn, j) # {} /\ \A p \in PartAt(sn, j) : HealthyP(p) /\ p.rev = u)
  /\ sn.set.strat = "OnDelete" => UpdateDeletes(sn, calls) = {}
  \* creation revision, for specs that carry the rollingUpdate block (defaulted ones)
  /\ (sn.set.strat = "RollingUpdate" /\ sn.set.ruBlock /\ sn.set.partPresent) =>
       \A k \in Idx(calls) : IsPodCreate(calls[k]) =>
          Det(calls[k]) = IF Ints(calls[k])[1] < sn.set.part THEN cu ELSE u
  \* the pod is built from the template of the revision it is labelled with
  /\ \A k \in Idx(calls) : IsPodCreate(calls[k]) => calls[k][7][1] = "tmpl-ok"

(* C14 - Parallel policy                                                               *)
FaultFree(calls) == \A k \in Idx(calls) : OK(calls[k])
\* "absent API errors": no call failed, and the reconcile had no other ground to give up (the set it was asked to adopt
\* for is gone or re-created, a revision of a migration is still in transit) - then it must succeed and do all of it
C14Raw(sn, calls, res) ==
  (sn.set.policy = "Parallel" /\ ~sn.set.deleting /\ ~sn.set.paused /\ sn.set.cached /\ sn.set.selectorOK
     /\ FaultFree(calls) /\ sn.fresh.exists /\ sn.fresh.sameUid /\ ~sn.fresh.deleting /\ ~InTransit(sn.revs)) =>
    /\ res = "ok"
    /\ {Ints(calls[k])[1] : k \in {j \in Idx(calls) : IsPodCreate(calls[j])}}
          = {i \in D(sn) : PartAt(sn, i) = {} \/ \A p \in PartAt(sn, i) : DeadP(p)}
    /\ {Name(calls[k]) : k \in {j \in Idx(calls) : IsPodDelete(calls[j]) /\ IsCondemnedDelete(sn, calls, j)}}
          = {p.name : p \in {q \in CondemnedPresent(sn) : ~q.term}}
    /\ OneAtATime(sn, calls)                      \* "rolling updates still take down one pod at a time"

(* C12 - every status write tells the truth (per-write clauses)                        *)
StatusOfCall(c) == [obsGen |-> Ints(c)[1], replicas |-> Ints(c)[2], ready |-> Ints(c)[3],
                    current |-> Ints(c)[4], updated |-> Ints(c)[5], collisions |-> Ints(c)[6],
                    curRev |-> c[7][1], updRev |-> c[7][2]]
CreatesOK(calls)     == {k \in Idx(calls) : IsPodCreate(calls[k]) /\ OK(calls[k])}
\* the current revision advances only in a reconcile that saw every pod of the set at the update revision and Ready
CurAdvanceOK(sn, calls, k) ==
  LET w == StatusOfCall(calls[k]) IN
  (sn.set.status.curRev \in ListedNames(sn) /\ w.curRev # sn.set.status.curRev) =>
        /\ sn.set.strat = "RollingUpdate"
        /\ w.curRev = w.updRev
        /\ \A p \in Parts(sn) : p.rev = w.updRev /\ RunReadyP(p) /\ ~p.term
        /\ \A j \in 1..(k - 1) : ~IsPodCreate(calls[j])
StatusWriteOK(sn, calls, k) ==
  LET w == StatusOfCall(calls[k]) IN
  /\ 0 <= w.ready /\ w.ready <= w.replicas
  /\ 0 <= w.current /\ w.current <= w.replicas
  /\ 0 <= w.updated /\ w.updated <= w.replicas
  /\ w.obsGen = sn.set.gen
  /\ w.obsGen >= sn.set.status.obsGen
  /\ CurAdvanceOK(sn, calls, k)
  \* the total counts exactly the pods that are part of the set (C10: nothing else is counted)
  /\ w.replicas = Cardinality(Parts(sn)) + Cardinality({j \in CreatesOK(calls) : j < k})
                   - Cardinality({j \in 1..(k - 1) : IsPodDelete(calls[j]) /\ OK(calls[j]) /\ IsDeadDelete(sn, calls, j)})
C12Raw(sn, calls) == \A k \in Idx(calls) : IsStatus(calls[k]) => StatusWriteOK(sn, calls, k)

(* C13 - history truncation                                                            *)
RevNamed(sn, n) == {x \in SeqToSet(sn.revs) : x.name = n}
Live(sn, calls) == {CurObs(sn, calls), UpdObs(sn, calls)} \cup {p.rev : p \in Parts(sn)}
OwnRevs(sn)     == {x \in SeqToSet(Listed(sn.revs)) : TRUE}             \* owned by the set or adopted by this reconcile
Unused(sn, calls) == {x \in OwnRevs(sn) : x.name \notin Live(sn, calls)}
RevDeletes(calls) == {k \in Idx(calls) : IsRevDelete(calls[k])}
C13Raw(sn, calls, res) ==
  LET un  == Unused(sn, calls)
      del == {Name(calls[k]) : k \in RevDeletes(calls)}
      lim == sn.set.histLimit IN
  /\ \A k \in RevDeletes(calls) :
       /\ \E x \in un : x.name = Name(calls[k])                          \* own, not live
       /\ Cardinality(un) > lim
       /\ \A j \in RevDeletes(calls) : j # k => Name(calls[j]) # Name(calls[k])   \* each once
  /\ Cardinality(del) <= IF Cardinality(un) > lim THEN Cardinality(un) - lim ELSE 0
  /\ \A x \in un : x.name \in del => \A y \in un : RevLess(y, x) => y.name \in del   \* oldest first
  /\ (res = "ok" /\ FaultFree(calls) /\ sn.set.cached /\ ~sn.set.paused /\ sn.set.selectorOK) =>
        Cardinality(un) - Cardinality(del) <= lim

(* C08 - the update revision mirrors the template (per-reconcile clauses)              *)
SameTmpl(sn) == {x \in SeqToSet(Listed(sn.revs)) : x.tmpl = sn.set.tmpl}
C08(sn, calls, res) ==
  /\ \A k \in Idx(calls) :
       LET c == calls[k] IN
       \* a template that a listed revision already records never adds a revision; a new revision records the set's template
       /\ IsRevCreate(c) => (SameTmpl(sn) = {} /\ Det(c) = sn.set.tmpl)
       \* a rollback re-uses the earlier revision, renumbered above all others
       /\ (IsRevUpdate(c) /\ Det(c) = "renumber") =>
             /\ \E x \in SameTmpl(sn) : x.name = Name(c)
             /\ \A x \in SeqToSet(Listed(sn.revs)) : Ints(c)[1] > x.num
       \* a revision that collides on the name but holds other data is never written
       /\ (IsWrite(c) /\ Res(c) = "controllerrevisions" /\ ~IsRevCreate(c)) =>
             \E x \in SeqToSet(Listed(sn.revs)) : x.name = Name(c)
       \* the recorded update revision is a stored revision whose data reproduces the set's template
       /\ IsStatus(c) =>
             /\ \/ \E x \in SeqToSet(sn.revs) : x.name = c[7][2] /\ x.tmpl = sn.set.tmpl
                \/ \E j \in 1..(k - 1) : IsRevCreate(calls[j]) /\ OK(calls[j]) /\ Name(calls[j]) = c[7][2] /\ Det(calls[j]) = sn.set.tmpl
             /\ Len(c[7]) >= 3 => c[7][3] = "upd-data-ok"        \* checked on the real objects by the harness
             \* every name collision with different data was counted
             /\ Ints(c)[6] >= sn.set.status.collisions +
                   Cardinality({j \in 1..(k - 1) : IsRevCreate(calls[j]) /\ Result(calls[j]) = "AlreadyExists"
                                                   /\ \E x \in SeqToSet(sn.revs) : x.name = Name(calls[j]) /\ x.tmpl # sn.set.tmpl})

  \* "re-uses that earlier revision, renumbered above all others": a reconcile cannot succeed on a renumbering that failed
  /\ res = "ok" => \A k \in Idx(calls) :
        (IsRevUpdate(calls[k]) /\ Det(calls[k]) = "renumber" /\ ~OK(calls[k])) =>
           \E j \in (k + 1)..Len(calls) : IsRevUpdate(calls[j]) /\ Det(calls[j]) = "renumber" /\ Name(calls[j]) = Name(calls[k]) /\ OK(calls[j])

(* C02, local form - no false quiescence: when nothing is pending (every pod of the set is  *)
(* there, owned, Running, Ready, not terminating, nothing is left outside the desired set, no *)
(* call failed) a RollingUpdate reconcile that still sees a pod at or above the partition at  *)
(* another revision than the update revision takes one down - whichever revision that is.     *)
(* Together with C05 / C14 (creation, scale-in) this is the step argument of convergence: a   *)
(* reconcile that does nothing although no event is outstanding is a dead end of the history. *)
C02Local(sn, calls, res) ==
  LET u == UpdObs(sn, calls) IN
  (/\ sn.set.cached /\ ~sn.set.paused /\ ~sn.set.deleting /\ sn.set.selectorOK
   /\ sn.fresh.exists /\ sn.fresh.sameUid /\ ~sn.fresh.deleting /\ ~InTransit(sn.revs)
   /\ FaultFree(calls) /\ res = "ok" /\ sn.set.strat = "RollingUpdate"
   /\ \A p \in PodsOf(sn) : IsPartOf(sn, p) /\ p.owner = "self" /\ HealthyP(p) /\ p.ord \in D(sn)
   /\ \A i \in D(sn) : PartAt(sn, i) # {})
  => ((\E p \in Parts(sn) : p.ord >= Partition(sn) /\ p.rev # u) => UpdateDeletes(sn, calls) # {})

\* ... and the same for scaling: on a settled snapshot a vacant desired ordinal gets a pod created, and once none is
\* vacant a pod outside the desired set gets deleted (OrderedReady does one thing per reconcile, creation first)
C02LocalScale(sn, calls, res) ==
  (/\ sn.set.cached /\ ~sn.set.paused /\ ~sn.set.deleting /\ sn.set.selectorOK
   /\ sn.fresh.exists /\ sn.fresh.sameUid /\ ~sn.fresh.deleting /\ ~InTransit(sn.revs)
   /\ FaultFree(calls) /\ res = "ok"
   /\ \A p \in PodsOf(sn) : IsPartOf(sn, p) /\ p.owner = "self" /\ HealthyP(p))
  => LET vacant == {i \in D(sn) : PartAt(sn, i) = {}}
         extra  == {p \in Parts(sn) : p.ord \notin D(sn)} IN
     /\ vacant # {} => \E k \in Idx(calls) : IsPodCreate(calls[k]) /\ Ints(calls[k])[1] \in vacant
     /\ (vacant = {} /\ extra # {}) => \E k \in Idx(calls) : IsPodDelete(calls[k]) /\ Name(calls[k]) \in {p.name : p \in extra}

(* C10 - ownership                                                                     *)
ForeignPod(p) == p.owner \in {"other", "stale"}
ForeignRev(x) == x.owner \in {"other", "stale"}
C10Raw(sn, calls, res) ==
  /\ \A k \in Idx(calls) :
       LET c == calls[k] IN
       \* nothing controlled by someone else is written
       /\ (IsWrite(c) /\ Res(c) = "pods" /\ ~IsPodCreate(c)) => \A p \in NamedPod(sn, Name(c)) : ~ForeignPod(p)
       /\ (IsWrite(c) /\ Res(c) = "controllerrevisions" /\ ~IsRevCreate(c)) => \A x \in RevNamed(sn, Name(c)) : ~ForeignRev(x)
       \* adoption: only of unowned, matching, well-named, non-terminating pods, after a fresh confirmation
       /\ (IsPodPatch(c) /\ Det(c) = "adopt") =>
            /\ \A p \in NamedPod(sn, Name(c)) : p.owner = "none" /\ p.match /\ p.member /\ ~p.term
            /\ \E j \in 1..(k - 1) : IsFreshGet(calls[j]) /\ OK(calls[j])
            /\ sn.fresh.exists /\ sn.fresh.sameUid /\ ~sn.fresh.deleting /\ ~sn.set.deleting
       /\ (IsRevPatch(c) /\ Det(c) = "adopt") =>
            /\ \A x \in RevNamed(sn, Name(c)) : x.owner = "none" /\ (x.sel \/ x.marker)
            /\ \E j \in 1..(k - 1) : IsFreshGet(calls[j]) /\ OK(calls[j])
            /\ sn.fresh.exists /\ sn.fresh.sameUid /\ ~sn.fresh.deleting /\ ~sn.set.deleting
       \* an adoption that did not succeed confers nothing: whatever the answer was (Invalid because somebody else took the
       \* pod meanwhile, a uid precondition, any other error), the pod is neither deleted nor rewritten by this reconcile
       /\ (IsPodPatch(c) /\ Det(c) = "adopt" /\ ~OK(c)) =>
            \A j \in (k + 1)..Len(calls) : ~((IsPodDelete(calls[j]) \/ IsPodUpdate(calls[j])) /\ Name(calls[j]) = Name(c))
       \* pods that stopped matching are released, never deleted; release only of own pods
       /\ (IsPodPatch(c) /\ Det(c) = "release") => \A p \in NamedPod(sn, Name(c)) : p.owner = "self" /\ ~(p.match /\ p.member)
       /\ IsPodDelete(c) => \A p \in NamedPod(sn, Name(c)) : IsPartOf(sn, p)
       /\ (IsPodUpdate(c)) => \A p \in NamedPod(sn, Name(c)) : IsPartOf(sn, p)
       \* the set itself is written only through its status
       /\ (IsWrite(c) /\ Res(c) \in {"statefulsets", "statefulsets/status"}) => IsStatus(c)
       /\ IsPodPatch(c) => Det(c) \in {"adopt", "release"}
  /\ sn.cacheIntact

(* C11 - deleted and paused sets                                                       *)
C11Raw(sn, calls) ==
  /\ sn.set.paused => \A k \in Idx(calls) : ~IsWrite(calls[k])
  /\ sn.set.deleting =>
       \A k \in Idx(calls) :
         LET c == calls[k] IN
         /\ ~(IsWrite(c) /\ Res(c) \in {"pods", "persistentvolumeclaims"})
         /\ ~IsRevPatch(c)
         /\ ~(IsRevUpdate(c) /\ Det(c) = "labels")
  \* a set that carries the timestamp in the API although the cache does not show it yet adopts nothing either (every
  \* adoption is preceded by an uncached read), however many orphans are waiting
  /\ (sn.fresh.exists /\ sn.fresh.deleting) =>
       \A k \in Idx(calls) : ~(IsPodPatch(calls[k]) /\ Det(calls[k]) = "adopt") /\ ~(IsRevPatch(calls[k]) /\ Det(calls[k]) = "adopt")

(* C15 - no panic                                                                      *)
C15(res) == res \in {"ok", "err", "died"}      \* "died" is a process death injected by the harness, not a panic

(* C06 - identity / storage / claims first (per-reconcile clauses)                     *)
ClaimsOf(sn, i) == {ClaimName(sn.set, sn.set.claims[k], i) : k \in 1..Len(sn.set.claims)}
C06Raw(sn, calls) ==
  /\ \A k \in Idx(calls) :
       LET c == calls[k] IN
       /\ IsClaimCall(c) => Verb(c) = "create"                            \* never delete / update / patch a claim
       /\ IsPodCreate(c) =>
            LET i == Ints(c)[1] IN
            /\ Ints(c)[2] = 1                                             \* identity + owner + volumes as C06 states
            /\ c[7][1] = "tmpl-ok"                                        \* built from the revision its label names
            \* every claim of the ordinal exists (cache) or was created earlier in this reconcile
            /\ \A n \in ClaimsOf(sn, i) :
                  n \in sn.pvcs \/ \E j \in 1..(k - 1) : IsClaimCall(calls[j]) /\ Name(calls[j]) = n
                                                         /\ Result(calls[j]) \in {"ok", "AlreadyExists"}
            \* a failed claim call prevents the pod
            /\ ~ \E j \in 1..(k - 1) : IsClaimCall(calls[j]) /\ Name(calls[j]) \in ClaimsOf(sn, i)
                                       /\ Result(calls[j]) \notin {"ok", "AlreadyExists"}
       /\ (IsClaimCall(c) /\ Verb(c) = "create") => c[7][1] = "claim-ok"   \* right namespace and selector labels
\* An orphan whose adoption answered NotFound is gone as far as the controller can tell: it is not part of the set for
\* the rest of that reconcile.  Every property is evaluated on the snapshot without such pods.
GoneOrphans(calls) == {Name(calls[k]) : k \in {j \in Idx(calls) : IsPodPatch(calls[j]) /\ Det(calls[j]) = "adopt"
                                                     /\ Result(calls[j]) \in {"NotFound", "NotFoundApplied"}}}
Eff(sn, calls) == IF GoneOrphans(calls) = {} THEN sn
                  ELSE [sn EXCEPT !.pods = SelectSeq(@, LAMBDA p : p.name \notin GoneOrphans(calls))]
C03(sn, calls) == C03Raw(Eff(sn, calls), calls)
C04(sn, calls) == C04Raw(Eff(sn, calls), calls)
C05(sn, calls) == C05Raw(Eff(sn, calls), calls)
C06(sn, calls) == C06Raw(Eff(sn, calls), calls)
\* "built from the current revision" (below the partition) has a meaning over time only if the current revision moves
\* by C12's rule; so C07 includes that rule for every status write
\* ... and if the current revision stays in the history for as long as it is current (C13's liveness rule)
C07(sn, calls) == /\ C07Raw(Eff(sn, calls), calls)
                  /\ \A k \in Idx(calls) : IsStatus(calls[k]) => CurAdvanceOK(Eff(sn, calls), calls, k)
                  /\ \A k \in Idx(calls) : IsRevDelete(calls[k]) => Name(calls[k]) \notin Live(Eff(sn, calls), calls)
C10(sn, calls, res) == C10Raw(sn, calls, res)
C11(sn, calls) == C11Raw(sn, calls)
C12(sn, calls) == C12Raw(Eff(sn, calls), calls)
C13(sn, calls, res) == C13Raw(Eff(sn, calls), calls, res)
C14(sn, calls, res) == C14Raw(Eff(sn, calls), calls, res)

(* C18 per reconcile: a reconcile that runs to the end without an API error has adopted (and label-synced) every         *)
(* revision that carries the upgrade marker for this set and has no controller - however many of the others it had      *)
(* label-synced before: the marked revisions are never lost from sight                                                  *)
C18S(sn, calls, res) ==
  (res = "ok" /\ FaultFree(calls) /\ sn.set.cached /\ ~sn.set.paused /\ ~sn.set.deleting /\ sn.set.selectorOK
     /\ sn.fresh.exists /\ sn.fresh.sameUid /\ ~sn.fresh.deleting) =>
    \A x \in SeqToSet(sn.revs) : (x.marker /\ x.owner = "none") =>
        /\ \E k \in Idx(calls) : IsRevPatch(calls[k]) /\ Det(calls[k]) = "adopt" /\ Name(calls[k]) = x.name
        /\ (~x.sel => \E k \in Idx(calls) : IsRevUpdate(calls[k]) /\ Det(calls[k]) = "labels" /\ Name(calls[k]) = x.name)

(* C09 - a failed call is reported (per-reconcile clauses; recovery is a history clause) *)
LaterOK(calls, k, P(_)) == \E j \in (k + 1)..Len(calls) : P(calls[j]) /\ Name(calls[j]) = Name(calls[k]) /\ OK(calls[j])
\* failures the controller may legitimately absorb without failing the reconcile
Benign(calls, k) ==
  LET c == calls[k] IN
  \/ IsPodPatch(c) /\ Result(c) \in {"NotFound", "NotFoundApplied"}              \* the pod is gone: nothing to adopt / release
  \/ IsPodPatch(c) /\ Det(c) = "release" /\ Result(c) = "Invalid"
  \/ IsStatus(c) /\ Result(c) = "Conflict" /\ LaterOK(calls, k, IsStatus)        \* retried from a fresh copy, and it went through
  \/ IsPodUpdate(c) /\ Result(c) = "Conflict" /\ LaterOK(calls, k, IsPodUpdate)
  \/ IsRevUpdate(c) /\ Result(c) = "Conflict" /\ LaterOK(calls, k, IsRevUpdate)
  \/ IsRevCreate(c) /\ Result(c) = "AlreadyExists"                                \* name taken: the existing one is read and compared
        /\ k < Len(calls) /\ Verb(calls[k + 1]) = "get" /\ Res(calls[k + 1]) = "controllerrevisions"
        /\ Name(calls[k + 1]) = Name(c) /\ OK(calls[k + 1])
  \* the re-read after a failed revision update is judged through that update, not on its own
  \/ Verb(c) = "get" /\ Res(c) = "controllerrevisions" /\ k > 1 /\ IsRevUpdate(calls[k - 1]) /\ ~OK(calls[k - 1])
C09(sn, calls, res) ==
  /\ (\E k \in Idx(calls) : ~OK(calls[k]) /\ ~Benign(calls, k)) => res \in {"err", "died"}
  /\ res = "died" => \E f \in SeqToSet(sn.faults) : f.die          \* only an injected process death ends a reconcile that way
  \* what a failed or interrupted reconcile leaves behind breaks none of the safety rules
  /\ C03(sn, calls) /\ C04(sn, calls) /\ C05(sn, calls) /\ C07(sn, calls) /\ C10(sn, calls, res) /\ C11(sn, calls) /\ C12(sn, calls)
  /\ C13(sn, calls, res)
=======================================================================================
