-------------------------------- MODULE TraceOrdinals ------------------------------
(***************************************************************************************)
(* C01, code level: every record is one (replicas, annotation value) input with the    *)
(* answers of all slot helpers of the real client library and, where the controller    *)
(* was run on it, the ordinals at which the real controller created pods.              *)
(***************************************************************************************)
EXTENDS Reconcile, Json, IOUtils
Recs == ndJsonDeserialize(IOEnv.VERIF_TRACE)
VARIABLE i
TInit == i \in 1..Len(Recs)
TNext == UNCHANGED i

AsSet(s) == {s[k] : k \in 1..Len(s)}
R     == Recs[i]
Want  == AsSet(R.want)
DD    == Desired(R.r, Want)
DeclBound == IF R.r = 0 THEN 0 ELSE MaxOf(DD) + 1

\* drift: the helpers behave like the operational model
Conf == /\ R.panic = ""
        /\ AsSet(R.ords) = Ordinals(R.r, Want)
        /\ R.bound = Bound(R.r, Want)
        /\ AsSet(R.eff) = EffSlots(R.r, Want)

\* verdict: everything agrees with the declarative desired set
P_C01 == /\ R.panic = ""
         /\ AsSet(R.slots) = Want                           \* the annotation is read as the set it denotes
         /\ AsSet(R.ords) = DD /\ AsSet(R.ords2) = DD
         /\ Len(R.ords) = R.r
         /\ R.max = (IF DD = {} THEN -1 ELSE MaxOf(DD))
         /\ R.min = (IF DD = {} THEN 2147483647 ELSE MinOf(DD))
         /\ R.bound = DeclBound
         /\ AsSet(R.eff) = {s \in Want : s >= 0 /\ s < DeclBound}
         /\ R.inputIntact
         /\ R.ctl => (AsSet(R.created) = DD /\ AsSet(R.createdOrdered) = DD)
=======================================================================================
