---------------------------------- MODULE MCHandlers --------------------------------
\* design check of the decision table: for every event shape the handlers enqueue what C16 requires and nothing unrelated
EXTENDS Handlers
VARIABLE ev
TableInit == ev \in Events /\ QInit
TableNext == UNCHANGED <<ev, qvars>>
TableOK == C16Event(ev, Enq(ev))
=======================================================================================
