--------------------------------- MODULE TraceClient --------------------------------
(***************************************************************************************)
(* C19 on the real client library.  Two kinds of records:                              *)
(*   "ann"   an operation sequence on a real object's annotations, with the projected   *)
(*           abstract object after every operation;                                     *)
(*   "data"  one generated concrete StatefulSet pushed through the hijack client and    *)
(*           the conversion / defaulting functions, with the harness' verdicts          *)
(*           (semantic deep equality on the real objects).                              *)
(***************************************************************************************)
EXTENDS ClientSession, Json, IOUtils
Recs == ndJsonDeserialize(IOEnv.VERIF_TRACE)
VARIABLE i
TInit == i \in 1..Len(Recs) /\ obj = 0 /\ n = 0
TNext == UNCHANGED <<i, cvars>>
R == Recs[i]
AsSet(s) == {s[k] : k \in 1..Len(s)}
ObjOf(x) == [nilmap |-> x.nilmap, slots |-> [kind |-> x.slotsKind, vals |-> AsSet(x.slots)], paused |-> x.paused, other |-> AsSet(x.other)]
OpOf(x)  == [op |-> x.op, nilarg |-> x.nilarg, vals |-> AsSet(x.vals), flag |-> x.flag]
IsAnn == R.kind = "ann"
Before(k) == IF k = 1 THEN ObjOf(R.init) ELSE ObjOf(R.steps[k - 1].after)
Conf == ~IsAnn \/ \A k \in 1..Len(R.steps) : Step(Before(k), OpOf(R.steps[k])) = ObjOf(R.steps[k].after)
P_Ann == ~IsAnn \/ \A k \in 1..Len(R.steps) :
            /\ StepOK(Before(k), OpOf(R.steps[k]), ObjOf(R.steps[k].after))
            /\ R.steps[k].err = ""
            \* what the real getters answer on the object after the step
            /\ AsSet(R.steps[k].gotSlots) = GetSlots(ObjOf(R.steps[k].after))
            /\ R.steps[k].gotPaused = GetPaused(ObjOf(R.steps[k].after))
P_Data == IsAnn \/ \A k \in 1..Len(R.checks) : R.checks[k][2]          \* every named data check passed
P_C19 == P_Ann /\ P_Data
=======================================================================================
