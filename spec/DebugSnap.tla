---- MODULE DebugSnap ----
\* prints the model's plan next to the recorded one for every record of VERIF_TRACE (debugging aid)
EXTENDS TraceSnap
Dbg == PrintT(<<"REC", i, "MODEL", Norm(Sync(Sn).calls), Sync(Sn).res, "REAL", Norm(Calls), Rslt>>)
====
