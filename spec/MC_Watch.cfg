CONSTANTS Kinds = {"Added", "Modified", "Deleted", "Bookmark", "Error"}
 MaxLen = 3
 MaxStops = 2
SPECIFICATION WSpec
CHECK_DEADLOCK FALSE
INVARIANT InOrder
INVARIANT NoLoss
INVARIANT StopsSource
INVARIANT StopOnce
PROPERTY CleansUp
