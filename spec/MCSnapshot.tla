--------------------------------- MODULE MCSnapshot --------------------------------
(***************************************************************************************)
(* Design check of the per-reconcile properties: every snapshot of the bounded domain  *)
(* "pods" (the same product the harness enumerates, see harness/domains.go PodsDomain)  *)
(* is an initial state; the invariants evaluate the predicates of Props.tla on the     *)
(* specification's own Sync(snapshot).  Not only reachable snapshots: any type-correct *)
(* one, which over-approximates and is sound for per-reconcile safety.                 *)
(***************************************************************************************)
EXTENDS Props
CONSTANTS MaxOrd, MaxRep, NPhases, WithDeleting

VARIABLES rep, slots, pol, strat, same, mode, del, pods, lvl
vars == <<rep, slots, pol, strat, same, mode, del, pods, lvl>>

Ords == 0..MaxOrd
PhaseTab == << <<"Pending", FALSE>>, <<"Running", FALSE>>, <<"Running", TRUE>>, <<"Failed", FALSE>>, <<"Succeeded", FALSE>> >>
RevTab   == <<"t0.0", "t1.0", "t2.0">>
Absent   == [present |-> FALSE]
PodChoices == {Absent} \cup [present : {TRUE}, ph : 1..NPhases, term : BOOLEAN, rev : 1..3]
\* strategy shapes: 0..MaxOrd+1 = RollingUpdate with block and that partition; MaxOrd+2 = RollingUpdate, no block;
\* MaxOrd+3 = OnDelete; MaxOrd+4, MaxOrd+5 = OnDelete with a left-over rollingUpdate block (partition 0, 1)
Strats == 0..(MaxOrd + 5)
HasBlock == strat <= MaxOrd + 1 \/ strat >= MaxOrd + 4

StdRevs == << [name |-> "t0.0", tmpl |-> "t0", num |-> 1, created |-> 100, owner |-> "self", marker |-> FALSE, sel |-> TRUE, rank |-> 1],
              [name |-> "t1.0", tmpl |-> "t1", num |-> 2, created |-> 200, owner |-> "self", marker |-> FALSE, sel |-> TRUE, rank |-> 2],
              [name |-> "t2.0", tmpl |-> "t2", num |-> 3, created |-> 300, owner |-> "self", marker |-> FALSE, sel |-> TRUE, rank |-> 3] >>

MkPod(o, c) == [new |-> FALSE, name |-> "foo-" \o ToString(o), ord |-> o, member |-> TRUE, match |-> TRUE, owner |-> "self",
                phase |-> PhaseTab[c.ph][1], ready |-> PhaseTab[c.ph][2], term |-> c.term, rev |-> RevTab[c.rev],
                identOK |-> TRUE, storOK |-> TRUE, uidOK |-> TRUE]

PodSeq == LET present == {o \in Ords : pods[o].present} IN
          SetToSortSeq({MkPod(o, pods[o]) : o \in present}, LAMBDA a, b : a.ord < b.ord)

CurName == IF same THEN "t2.0" ELSE "t1.0"
PS == SeqToSet(PodSeq)
StatusRec ==
  IF mode = "census" THEN
     [obsGen |-> 2, replicas |-> Cardinality(PS), ready |-> Cardinality({p \in PS : p.phase = "Running" /\ p.ready}),
      current |-> Cardinality({p \in PS : ~p.term /\ p.rev = CurName}), updated |-> Cardinality({p \in PS : ~p.term /\ p.rev = "t2.0"}),
      collisions |-> 0, curRev |-> CurName, updRev |-> "t2.0"]
  ELSE [obsGen |-> 1, replicas |-> 0, ready |-> 0, current |-> 0, updated |-> 0, collisions |-> 0, curRev |-> CurName, updRev |-> "t2.0"]

SnOf ==
  [set |-> [name |-> "foo", cached |-> TRUE, replicas |-> rep, slots |-> slots, policy |-> pol,
            strat |-> IF strat >= MaxOrd + 3 THEN "OnDelete" ELSE "RollingUpdate",
            ruBlock |-> HasBlock, partPresent |-> HasBlock,
            part |-> IF strat <= MaxOrd + 1 THEN strat ELSE IF strat >= MaxOrd + 4 THEN strat - MaxOrd - 4 ELSE 0,
            tmpl |-> "t2", paused |-> FALSE, deleting |-> del, histLimit |-> 10, selectorOK |-> TRUE, gen |-> 2,
            status |-> StatusRec, claims |-> <<>>],
   pods |-> PodSeq, revs |-> StdRevs, pvcs |-> {}, fresh |-> [exists |-> TRUE, sameUid |-> TRUE, deleting |-> del, rvSame |-> TRUE],
   cacheIntact |-> TRUE,
   apods |-> ApiFromCache(PodSeq), apvcs |-> {}, faults |-> <<>>]

Init == /\ rep \in 0..MaxRep /\ slots \in SUBSET Ords /\ pol \in {"OrderedReady", "Parallel"}
        /\ strat \in Strats /\ same \in BOOLEAN /\ mode \in {"zero", "census"}
        /\ del \in (IF WithDeleting THEN BOOLEAN ELSE {FALSE})
        /\ pods = [o \in Ords |-> Absent] /\ lvl = 0
\* Two levels only so that TLC's workers share the enumeration: the spec-level settings are the
\* initial states (with an empty cluster), the pod populations are their successors.
Next == /\ lvl = 0 /\ lvl' = 1 /\ pods' \in [Ords -> PodChoices]
        /\ UNCHANGED <<rep, slots, pol, strat, same, mode, del>>

M == Sync(SnOf)
I_C03 == C03(SnOf, M.calls)
I_C04 == C04(SnOf, M.calls)
I_C05 == C05(SnOf, M.calls)
I_C06 == C06(SnOf, M.calls)
I_C07 == C07(SnOf, M.calls)
I_C09 == C09(SnOf, M.calls, M.res)
I_C10 == C10(SnOf, M.calls, M.res)
I_C11 == C11(SnOf, M.calls)
I_C12 == C12(SnOf, M.calls)
I_C13 == C13(SnOf, M.calls, M.res)
I_C14 == C14(SnOf, M.calls, M.res)
I_C15 == C15(M.res)
I_Plan == Len(M.calls) >= 0      \* evaluates the model only (used for timing)
\* the operational slot arithmetic agrees with its declarative meaning on this domain too
I_C01 == DSet(SnOf.set) = D(SnOf)
=======================================================================================
