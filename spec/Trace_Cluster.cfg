CONSTANTS MaxOrd = 3
 MaxRep = 4
 Tmpls = {"t0", "t1", "t2"}
 Policies = {"OrderedReady", "Parallel"}
 Strats = {"RollingUpdate", "OnDelete", "RollingUpdateBare"}
 Edits = 0
 Faults = 0
 Fails = 0
 MaxFaultPos = 1
 QueueDriven = FALSE
 ClaimCounts = {0}
 InitMode = "empty"
INIT TInit
NEXT TNext
CHECK_DEADLOCK FALSE
