CONSTANTS NRevs = 2
 Budget = 2
SPECIFICATION USpec
CHECK_DEADLOCK FALSE
INVARIANT Safe
INVARIANT EndState
PROPERTY Finishes
