CONSTANTS MaxOrd = 1
 MaxRep = 2
 NPhases = 5
 WithDeleting = TRUE
INIT Init
NEXT Next
CHECK_DEADLOCK FALSE
INVARIANT I_C01
INVARIANT I_C03
INVARIANT I_C04
INVARIANT I_C05
INVARIANT I_C06
INVARIANT I_C07
INVARIANT I_C10
INVARIANT I_C11
INVARIANT I_C12
INVARIANT I_C13
INVARIANT I_C14
INVARIANT I_C15
