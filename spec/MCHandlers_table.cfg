INIT TableInit
NEXT TableNext
CHECK_DEADLOCK FALSE
INVARIANT TableOK
