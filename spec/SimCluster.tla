---------------------------------- MODULE SimCluster --------------------------------
(***************************************************************************************)
(* Behaviour generator: Cluster.tla with a history variable.  Run with                 *)
(*   tlc -simulate num=N -depth D                                                      *)
(* every behaviour that reaches Depth steps is printed as one JSON line (initial set   *)
(* and revisions, then the action records in order); the harness replays it on the     *)
(* real controller (direction A of the binding).                                       *)
(***************************************************************************************)
EXTENDS Cluster, Json
CONSTANT Depth
VARIABLES hist
svars == <<vars, hist>>

SimInit == Init /\ hist = <<>>
SimNext == Next /\ hist' = Append(hist, last')
SimSpec == SimInit /\ [][SimNext]_svars

\* "invariant" that emits the behaviour once it is complete (always true)
Emit == Len(hist) # Depth \/ PrintT(<<"BEHAVIOUR", ToJson([acts |-> hist])>>)
=======================================================================================
