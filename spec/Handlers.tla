----------------------------------- MODULE Handlers ---------------------------------
(***************************************************************************************)
(* C16.  Two parts.                                                                    *)
(* (1) The decision table of the informer event handlers (addPod / updatePod /        *)
(*     deletePod incl. tombstones, and the set handlers): which StatefulSets an event  *)
(*     enqueues.  Enq(ev) transcribes stateful_set.go; Required(ev) / Allowed(ev)      *)
(*     state what C16 demands.  Two sets exist in the cache: S1 selects {app=a},       *)
(*     S2 selects {app=a, tier=x} (overlapping selectors).                             *)
(* (2) The work queue and the worker (client-go workqueue semantics: queue / dirty /   *)
(*     processing sets, rate-limited re-add on failure, Forget on success) as a small  *)
(*     state machine, with the no-lost-wake-up invariant.                              *)
(***************************************************************************************)
EXTENDS Integers, Sequences, FiniteSets, TLC

Sets    == {"S1", "S2"}
Owners  == {"none", "S1", "S1alpha", "S1stale", "S2", "otherKind", "gone"}     \* gone: a StatefulSet name that is not in the cache
\* S1alpha: S1 itself (same UID), referenced through the other API version the CRD serves (apps.pingcap.com/v1alpha1)
Ctl(o)      == IF o = "S1alpha" THEN "S1" ELSE o
Labels  == {"L0", "L1", "L1b", "L2"}                                \* {} ; {app=a} ; {app=a, extra=y} ; {app=a, tier=x}
Matching(l) == CASE l = "L0" -> {} [] l = "L1" -> {"S1"} [] l = "L1b" -> {"S1"} [] OTHER -> {"S1", "S2"}
Resolve(o)  == IF Ctl(o) \in Sets THEN {Ctl(o)} ELSE {}       \* resolveControllerRef: right kind, found by name, same UID

PodShapes == [owner : Owners, lab : Labels, term : BOOLEAN]
Events == [kind : {"add"}, new : PodShapes]
          \cup [kind : {"update"}, old : PodShapes, new : PodShapes, rvSame : BOOLEAN]
          \cup [kind : {"delete", "tombstone"}, new : PodShapes]
          \cup [kind : {"setAdd", "setUpdate", "setDelete"}, set : Sets]

\* ---- the handlers as written ----
EnqDelete(p) == IF p.owner = "none" THEN {} ELSE Resolve(p.owner)
EnqAdd(p)    == IF p.term THEN EnqDelete(p)
                ELSE IF p.owner # "none" THEN Resolve(p.owner)
                ELSE Matching(p.lab)
EnqUpdate(o, n, rvSame) ==
  IF rvSame THEN {}
  ELSE LET refChanged == o.owner # n.owner
           fromOld == IF refChanged /\ o.owner # "none" THEN Resolve(o.owner) ELSE {}
           fromNew == IF n.owner # "none" THEN Resolve(n.owner)
                      ELSE IF o.lab # n.lab \/ refChanged THEN Matching(n.lab) ELSE {}
       IN fromOld \cup fromNew
Enq(ev) == CASE ev.kind = "add" -> EnqAdd(ev.new)
             [] ev.kind = "update" -> EnqUpdate(ev.old, ev.new, ev.rvSame)
             [] ev.kind \in {"delete", "tombstone"} -> EnqDelete(ev.new)
             [] OTHER -> {ev.set}

\* ---- what C16 states ----
\* sets that MUST be enqueued
Required(ev) ==
  CASE ev.kind = "add" ->
         IF Ctl(ev.new.owner) \in Sets THEN {Ctl(ev.new.owner)}           \* controlled by a set: that set
         ELSE IF ev.new.owner = "none" /\ ~ev.new.term THEN Matching(ev.new.lab)   \* an unowned pod: every matching set
         ELSE {}
    [] ev.kind = "update" ->
         IF ev.rvSame THEN {}                                              \* a resync replay of a known version: nothing new
         ELSE (IF Ctl(ev.new.owner) \in Sets THEN {Ctl(ev.new.owner)} ELSE {})
              \cup (IF Ctl(ev.old.owner) \in Sets /\ ev.old.owner # ev.new.owner THEN {Ctl(ev.old.owner)} ELSE {})   \* owner changed: old and new
              \cup (IF ev.new.owner = "none" /\ (ev.old.lab # ev.new.lab \/ ev.old.owner # "none") THEN Matching(ev.new.lab) ELSE {})
    [] ev.kind \in {"delete", "tombstone"} -> IF Ctl(ev.new.owner) \in Sets THEN {Ctl(ev.new.owner)} ELSE {}
    [] OTHER -> {ev.set}
\* sets that MAY be enqueued: only ones the pod is related to (controller of the old or new version, or selecting an orphan)
Allowed(ev) ==
  CASE ev.kind = "add" -> Resolve(ev.new.owner) \cup (IF ev.new.owner = "none" THEN Matching(ev.new.lab) ELSE {})
    [] ev.kind = "update" -> Resolve(ev.new.owner) \cup Resolve(ev.old.owner) \cup (IF ev.new.owner = "none" THEN Matching(ev.new.lab) ELSE {})
    [] ev.kind \in {"delete", "tombstone"} -> Resolve(ev.new.owner)
    [] OTHER -> {ev.set}
C16Event(ev, enq) == Required(ev) \subseteq enq /\ enq \subseteq Allowed(ev)

---------------------------------------------------------------------------------------
(* (2) queue + worker for one key                                                      *)
VARIABLES queued, dirty, processing, delayed, requeues, owed, steps
qvars == <<queued, dirty, processing, delayed, requeues, owed, steps>>
\* queued: key waits in the FIFO; dirty: key is marked for (re)processing; processing: a worker holds it;
\* delayed: a rate-limited re-add is pending; requeues: the limiter's failure count;
\* owed: an event arrived that no reconcile has STARTED after yet (the wake-up that must not be lost)

QInit == queued = FALSE /\ dirty = FALSE /\ processing = FALSE /\ delayed = FALSE /\ requeues = 0 /\ owed = FALSE /\ steps = 0
\* workqueue.Add
AddKey == IF dirty THEN UNCHANGED <<queued, dirty>>
          ELSE /\ dirty' = TRUE /\ queued' = IF processing THEN queued ELSE TRUE
EventArrives == /\ steps < 6 /\ AddKey /\ owed' = TRUE /\ steps' = steps + 1 /\ UNCHANGED <<processing, delayed, requeues>>
\* worker: Get
Get == /\ queued /\ ~processing
       /\ queued' = FALSE /\ dirty' = FALSE /\ processing' = TRUE /\ owed' = FALSE      \* a reconcile starts now: it sees all earlier events
       /\ UNCHANGED <<delayed, requeues, steps>>
\* worker: the reconcile ends; Done re-queues a key that became dirty meanwhile
Finish(ok) == /\ processing /\ (ok \/ requeues < 3)            \* (bounded number of failures: the model is finite)
              /\ processing' = FALSE
              /\ queued' = dirty
              /\ IF ok THEN requeues' = 0 /\ delayed' = delayed                      \* Forget
                       ELSE requeues' = requeues + 1 /\ delayed' = TRUE               \* AddRateLimited
              /\ UNCHANGED <<dirty, owed, steps>>
\* the limiter's timer fires: AddAfter -> Add
TimerFires == /\ delayed /\ delayed' = FALSE /\ AddKey /\ UNCHANGED <<processing, requeues, owed, steps>>
QNext == EventArrives \/ Get \/ Finish(TRUE) \/ Finish(FALSE) \/ TimerFires
QSpec == QInit /\ [][QNext]_qvars /\ WF_qvars(Get) /\ WF_qvars(Finish(TRUE)) /\ WF_qvars(TimerFires)

\* no lost wake-up: whenever a reconcile is owed, the key is in the queue or will be put back when the current one ends
NoLostWakeup == owed => (queued \/ (processing /\ dirty))
\* a failed reconcile always comes back (its retry is pending or already queued)
FailureRetried == [][ (processing /\ ~processing' /\ requeues' > requeues) => (delayed' \/ queued') ]_qvars
SuccessClears  == [][ (processing /\ ~processing' /\ requeues' = 0) => TRUE ]_qvars
EventuallyServed == owed ~> ~owed
=======================================================================================
