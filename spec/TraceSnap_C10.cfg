INIT TInit
NEXT TNext
CHECK_DEADLOCK FALSE
INVARIANT Conf
INVARIANT P_C10
