--------------------------------- MODULE TraceUpgrade -------------------------------
(***************************************************************************************)
(* C17 on the real helper.Upgrade: one record per fault plan.  The helper was re-run   *)
(* with the caller's original object until it returned nil; every run's calls and      *)
(* results, the state of the API at the instant of every delete of the built-in set,   *)
(* and the final state are recorded.                                                   *)
(***************************************************************************************)
EXTENDS Upgrade, Json, IOUtils
Recs == ndJsonDeserialize(IOEnv.VERIF_TRACE)
VARIABLE i
TInit == i \in 1..Len(Recs) /\ st = 0 /\ pc = 0 /\ todo = 0 /\ nf = 0 /\ budget = 0 /\ done = 0
TNext == UNCHANGED <<i, uvars>>
R == Recs[i]

StOf(x) == [sts |-> x.sts, asts |-> [exists |-> x.asts[1], spec |-> x.asts[2], status |-> x.asts[3]],
            revs |-> [k \in 1..Len(x.revs) |-> [sel |-> x.revs[k][1], marker |-> x.revs[k][2]]]]
FaultsOf == [k \in 1..Len(R.faults) |-> [k |-> R.faults[k][1], kind |-> R.faults[k][2], applied |-> R.faults[k][3], die |-> R.faults[k][4]]]

\* replay the recorded runs on the model, one after the other
RECURSIVE Replay(_, _, _)
Replay(s, pos, j) ==
  IF j > Len(R.runs) THEN [ok |-> TRUE, s |-> s]
  ELSE LET m == RunU(s, FaultsOf, pos) IN
       IF m.calls = R.runs[j].calls /\ m.res = R.runs[j].res THEN Replay(m.s, m.pos, j + 1)
       ELSE [ok |-> FALSE, s |-> s]
Conf == LET rp == Replay(StOf(R.state0), 1, 1) IN rp.ok /\ rp.s = StOf(R.final)

\* an answer "NotFound" to the delete of an object that exists is not a failure the helper can notice (it reads it as
\* "already gone"); such a lying server is outside the property's fault model and is not judged
LyingDelete == \E j \in 1..Len(R.runs) : \E k \in 1..Len(R.runs[j].calls) :
                  R.runs[j].calls[k][1] = "delete" /\ R.runs[j].calls[k][5] = "NotFound" /\ R.final.sts

P_C17 ==
  \* the built-in set is removed only when the Advanced one is complete and every revision is relabelled ...
  /\ \A k \in 1..Len(R.atDelete) : LET s == StOf(R.atDelete[k]) IN
        s.asts.exists /\ s.asts.spec = "S" /\ s.asts.status = "T" /\ RevsDone(s)
  /\ SafeU(StOf(R.final))
  \* ... and only with orphan propagation
  /\ \A j \in 1..Len(R.runs) : \A k \in 1..Len(R.runs[j].calls) :
        R.runs[j].calls[k][1] = "delete" => (R.runs[j].calls[k][2] = "apps.statefulsets" /\ R.runs[j].calls[k][4] = "Orphan")
  \* pods and claims are never written, and they survive
  /\ R.podWrites = 0 /\ R.podsLeft = 2 /\ R.claimsLeft = 2
  \* re-run until it succeeds: it does (at most one run per injected fault, plus one), with the final state of an uninterrupted run
  /\ LyingDelete \/ (R.finished /\ Len(R.runs) <= Len(R.faults) + 1 /\ FinalU(StOf(R.final)))
=======================================================================================
