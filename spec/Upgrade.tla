----------------------------------- MODULE Upgrade ----------------------------------
(***************************************************************************************)
(* C17.  helper.Upgrade (client/apis/apps/v1/helper/upgrade.go) call by call:          *)
(*   list revisions by selector ; relabel each listed revision (selector labels off,   *)
(*   upgrade marker on) ; get the Advanced set ; create it (or update its spec) ;       *)
(*   write its status ; delete the built-in set with orphan propagation.               *)
(* Every call may fail (any error kind, possibly after it took effect) and the process *)
(* may be killed before or after any call; the caller then runs the helper again with  *)
(* the same built-in object.                                                           *)
(*                                                                                     *)
(* State (s): sts     the built-in set still exists                                    *)
(*            asts    [exists, spec, status]  spec/status are "S"/"T" when equal to the *)
(*                    built-in set's, "x" otherwise, "none" for an empty status        *)
(*            revs    sequence of [sel, marker]   selector labels present / marker set *)
(***************************************************************************************)
EXTENDS Integers, Sequences, FiniteSets, TLC

\* ---------- one run as a function (used to judge recorded runs) ----------
\* faults: sequence of [k, kind, applied, die]; k counts ALL calls of the whole scenario (runs included)
FaultAtU(fs, pos) == {f \in {fs[j] : j \in 1..Len(fs)} : f.k = pos}
LabelU(f, nat) == LET ap == f.applied /\ nat = "ok" IN
                  IF f.die THEN (IF ap THEN "DiedApplied" ELSE "Died") ELSE IF ap THEN f.kind \o "Applied" ELSE f.kind
ResU(fs, pos, nat) == IF FaultAtU(fs, pos) # {} THEN LabelU(CHOOSE f \in FaultAtU(fs, pos) : TRUE, nat) ELSE nat
TookU(r) == r \in {"ok", "TimeoutApplied", "DiedApplied", "ServerErrorApplied", "ConflictApplied"}
DiedU(r) == r \in {"Died", "DiedApplied"}
UCall(v, res, n, d, r) == <<v, res, n, d, r>>

\* relabel the listed revisions one after the other, starting at position pos
RECURSIVE Relabel(_, _, _, _, _)
Relabel(s, todo, fs, pos, acc) ==
  IF todo = <<>> THEN [s |-> s, calls |-> acc, res |-> "ok", pos |-> pos]
  ELSE LET i == Head(todo)
           r == ResU(fs, pos, "ok")
           s2 == IF TookU(r) THEN [s EXCEPT !.revs[i] = [sel |-> FALSE, marker |-> TRUE]] ELSE s
           c == UCall("update", "controllerrevisions", i, "relabel", r) IN
       IF r = "ok" THEN Relabel(s2, Tail(todo), fs, pos + 1, Append(acc, c))
       ELSE [s |-> s2, calls |-> Append(acc, c), res |-> IF DiedU(r) THEN "died" ELSE "err", pos |-> pos + 1]

\* the tail of a run: get / create-or-update / status / delete
TailRun(s, fs, pos) ==
  LET rg   == ResU(fs, pos, IF s.asts.exists THEN "ok" ELSE "NotFound")
      cg   == UCall("get", "statefulsets", 0, "", rg)
      nf   == rg \in {"NotFound", "NotFoundApplied"}
      \* create
      rc   == ResU(fs, pos + 1, IF s.asts.exists THEN "AlreadyExists" ELSE "ok")
      sc   == IF TookU(rc) THEN [s EXCEPT !.asts = [exists |-> TRUE, spec |-> "S", status |-> "none"]] ELSE s
      cc   == UCall("create", "statefulsets", 0, "", rc)
      \* update spec
      ru   == ResU(fs, pos + 1, "ok")
      su   == IF TookU(ru) THEN [s EXCEPT !.asts.spec = "S"] ELSE s
      cu   == UCall("update", "statefulsets", 0, "spec", ru)
      r2   == IF nf THEN rc ELSE ru
      s2   == IF nf THEN sc ELSE su
      c2   == IF nf THEN cc ELSE cu
      \* status
      rs   == ResU(fs, pos + 2, "ok")
      s3   == IF TookU(rs) THEN [s2 EXCEPT !.asts.status = "T"] ELSE s2
      cs   == UCall("update", "statefulsets/status", 0, "", rs)
      \* delete
      rd   == ResU(fs, pos + 3, IF s3.sts THEN "ok" ELSE "NotFound")
      s4   == IF TookU(rd) THEN [s3 EXCEPT !.sts = FALSE] ELSE s3
      cd   == UCall("delete", "apps.statefulsets", 0, "Orphan", rd)
      fin(st, calls, r, n) == [s |-> st, calls |-> calls, res |-> IF DiedU(r) THEN "died" ELSE IF r = "ok" THEN "ok" ELSE "err", pos |-> pos + n]
  IN
  IF ~(rg = "ok" \/ nf) THEN fin(s, <<cg>>, rg, 1)
  ELSE IF r2 # "ok" THEN fin(s2, <<cg, c2>>, r2, 2)
  ELSE IF rs # "ok" THEN fin(s3, <<cg, c2, cs>>, rs, 3)
  ELSE IF rd \in {"ok", "NotFound"} THEN [s |-> s4, calls |-> <<cg, c2, cs, cd>>, res |-> "ok", pos |-> pos + 4]
  ELSE fin(s4, <<cg, c2, cs, cd>>, rd, 4)

RunU(s, fs, pos) ==
  LET rl == ResU(fs, pos, "ok")
      cl == UCall("list", "controllerrevisions", 0, "", rl)
      listed == SelectSeq([i \in 1..Len(s.revs) |-> i], LAMBDA i : s.revs[i].sel) IN
  IF rl # "ok" THEN [s |-> s, calls |-> <<cl>>, res |-> IF DiedU(rl) THEN "died" ELSE "err", pos |-> pos + 1]
  ELSE LET rb == Relabel(s, listed, fs, pos + 1, <<cl>>) IN
       IF rb.res # "ok" THEN rb
       ELSE LET t == TailRun(rb.s, fs, rb.pos) IN [s |-> t.s, calls |-> rb.calls \o t.calls, res |-> t.res, pos |-> t.pos]

\* what C17 states about a state
RevsDone(s) == \A i \in 1..Len(s.revs) : ~s.revs[i].sel /\ s.revs[i].marker
SafeU(s)    == ~s.sts => (s.asts.exists /\ s.asts.spec = "S" /\ s.asts.status = "T" /\ RevsDone(s))
FinalU(s)   == ~s.sts /\ s.asts.exists /\ s.asts.spec = "S" /\ s.asts.status = "T" /\ RevsDone(s)

---------------------------------------------------------------------------------------
(* the same helper as a state machine, for TLC: every interleaving of faults, kills and re-runs *)
CONSTANTS NRevs, Budget
VARIABLES st, pc, todo, nf, budget, done
uvars == <<st, pc, todo, nf, budget, done>>

InitSts == [sts : {TRUE}, asts : {[exists |-> FALSE, spec |-> "x", status |-> "none"], [exists |-> TRUE, spec |-> "x", status |-> "x"],
                                  [exists |-> TRUE, spec |-> "S", status |-> "none"]},
            revs : [1..NRevs -> {[sel |-> TRUE, marker |-> FALSE]}] \cup [1..NRevs -> {[sel |-> TRUE, marker |-> FALSE], [sel |-> FALSE, marker |-> TRUE]}]]
UInit == st \in InitSts /\ pc = "idle" /\ todo = <<>> /\ nf = FALSE /\ budget = Budget /\ done = FALSE

\* outcome of a call: ok, fails without effect, fails after taking effect ("applied"), or the process dies before / after it
Outcomes == IF budget > 0 THEN {"ok", "fail", "failApplied", "die", "dieApplied"} ELSE {"ok"}
Pay(o) == budget' = IF o = "ok" THEN budget ELSE budget - 1
Took(o) == o \in {"ok", "failApplied", "dieApplied"}
Abort(o) == o # "ok"

Start == pc = "idle" /\ ~done /\ pc' = "list" /\ UNCHANGED <<st, todo, nf, budget, done>>
List(o) == /\ pc = "list" /\ Pay(o)
           /\ IF Abort(o) THEN pc' = "idle" /\ UNCHANGED todo
              ELSE /\ todo' = SelectSeq([i \in 1..Len(st.revs) |-> i], LAMBDA i : st.revs[i].sel)
                   /\ pc' = "relabel"
           /\ UNCHANGED <<st, nf, done>>
RelabelStep(o) ==
  /\ pc = "relabel" /\ todo # <<>> /\ Pay(o)
  /\ st' = IF Took(o) THEN [st EXCEPT !.revs[Head(todo)] = [sel |-> FALSE, marker |-> TRUE]] ELSE st
  /\ IF Abort(o) THEN pc' = "idle" /\ todo' = <<>> ELSE pc' = "relabel" /\ todo' = Tail(todo)
  /\ UNCHANGED <<nf, done>>
RelabelEnd == pc = "relabel" /\ todo = <<>> /\ pc' = "get" /\ UNCHANGED <<st, todo, nf, budget, done>>
Get(o) == /\ pc = "get" /\ o \in {"ok", "fail", "die"} /\ Pay(o)
          /\ IF Abort(o) THEN pc' = "idle" /\ UNCHANGED nf ELSE nf' = ~st.asts.exists /\ pc' = IF st.asts.exists THEN "update" ELSE "create"
          /\ UNCHANGED <<st, todo, done>>
Create(o) == /\ pc = "create" /\ Pay(o)
             /\ st' = IF Took(o) THEN [st EXCEPT !.asts = [exists |-> TRUE, spec |-> "S", status |-> "none"]] ELSE st
             /\ pc' = IF Abort(o) THEN "idle" ELSE "status"
             /\ UNCHANGED <<todo, nf, done>>
Update(o) == /\ pc = "update" /\ Pay(o)
             /\ st' = IF Took(o) THEN [st EXCEPT !.asts.spec = "S"] ELSE st
             /\ pc' = IF Abort(o) THEN "idle" ELSE "status"
             /\ UNCHANGED <<todo, nf, done>>
Status(o) == /\ pc = "status" /\ Pay(o)
             /\ st' = IF Took(o) THEN [st EXCEPT !.asts.status = "T"] ELSE st
             /\ pc' = IF Abort(o) THEN "idle" ELSE "delete"
             /\ UNCHANGED <<todo, nf, done>>
Delete(o) == /\ pc = "delete" /\ Pay(o)
             /\ st' = IF Took(o) THEN [st EXCEPT !.sts = FALSE] ELSE st
             /\ IF Abort(o) THEN pc' = "idle" /\ done' = FALSE ELSE pc' = "idle" /\ done' = TRUE
             /\ UNCHANGED <<todo, nf>>
UNext == Start \/ RelabelEnd \/ \E o \in Outcomes : List(o) \/ RelabelStep(o) \/ Get(o) \/ Create(o) \/ Update(o) \/ Status(o) \/ Delete(o)
USpec == UInit /\ [][UNext]_uvars /\ WF_uvars(UNext)

\* C17: the built-in set is never gone before the Advanced one is complete and every revision is relabelled
Safe == SafeU(st)
\* re-run until it succeeds: it does succeed once faults stop, and the end state is the one of an uninterrupted run
Finishes == <>done
EndState == done => FinalU(st)
=======================================================================================
