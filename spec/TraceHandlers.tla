--------------------------------- MODULE TraceHandlers ------------------------------
(***************************************************************************************)
(* C16 on the real code.  Records of two kinds:                                        *)
(*  - one informer event fired through the handlers the controller registered, with    *)
(*    the keys found in the real work queue afterwards;                                *)
(*  - one sequence of queue / worker operations on the real work queue and the real    *)
(*    processNextWorkItem, with the observable queue state after every operation, the  *)
(*    sequence numbers of all events and of all reconcile starts.                      *)
(***************************************************************************************)
EXTENDS Handlers, Json, IOUtils
Recs == ndJsonDeserialize(IOEnv.VERIF_TRACE)
VARIABLE i
TInit == i \in 1..Len(Recs) /\ QInit
TNext == UNCHANGED <<i, qvars>>
R == Recs[i]
AsSet(s) == {s[k] : k \in 1..Len(s)}
IsQ == R.kind = "queue"

\* ---- events ----
Conf_Ev == IsQ \/ AsSet(R.enq) = Enq(R)
P_Ev    == IsQ \/ C16Event(R, AsSet(R.enq))

\* ---- queue / worker: the model's transitions as functions of a state record ----
Q0 == [queued |-> FALSE, dirty |-> FALSE, processing |-> FALSE, delayed |-> FALSE, requeues |-> 0]
FAdd(s)  == IF s.dirty THEN s ELSE [s EXCEPT !.dirty = TRUE, !.queued = IF s.processing THEN @ ELSE TRUE]
FGet(s)  == [s EXCEPT !.queued = FALSE, !.dirty = FALSE, !.processing = TRUE]
FFin(s, ok) == [s EXCEPT !.processing = FALSE, !.queued = s.dirty, !.requeues = IF ok THEN 0 ELSE @ + 1, !.delayed = IF ok THEN @ ELSE TRUE]
FTimer(s) == IF s.delayed THEN FAdd([s EXCEPT !.delayed = FALSE]) ELSE s
FOp(s, op) ==
  IF op = "E" THEN FAdd(s)
  ELSE IF ~s.queued THEN s
  ELSE LET g == FGet(s)
           m == IF op \in {"PokE", "PfailE"} THEN FAdd(g) ELSE g
           f == FFin(m, op \in {"Pok", "PokE"}) IN
       IF op \in {"Pfail", "PfailE"} THEN FTimer(f) ELSE f
RECURSIVE Run(_, _, _)
Run(s, ops, k) == IF k > Len(ops) THEN <<>> ELSE LET t == FOp(s, ops[k]) IN <<t>> \o Run(t, ops, k + 1)
Conf_Q == ~IsQ \/ LET tr == Run(Q0, R.ops, 1) IN
                  \A k \in 1..Len(R.ops) : tr[k].queued = R.obs[k].queued /\ tr[k].requeues = R.obs[k].requeues
Conf == Conf_Ev /\ Conf_Q

\* ---- what C16 states about the queue, on the observations alone ----
ReqBefore(k) == IF k = 1 THEN 0 ELSE R.obs[k - 1].requeues
P_Q == ~IsQ \/
  /\ \A e \in AsSet(R.events) : \E s \in AsSet(R.starts) : s > e                       \* no lost wake-up
  /\ \A k \in 1..Len(R.ops) :
       /\ (R.obs[k].processed /\ R.ops[k] \in {"Pfail", "PfailE"}) =>
              (R.obs[k].requeues = ReqBefore(k) + 1 /\ R.obs[k].queued)                 \* put back, with back-off
       /\ (R.obs[k].processed /\ R.ops[k] \in {"Pok", "PokE"}) => R.obs[k].requeues = 0   \* success clears the back-off
       /\ (R.obs[k].processed /\ R.ops[k] = "PokE") => R.obs[k].queued                  \* an event during processing re-queues the key
  /\ ~R.finalQueued /\ R.finalRequeues = 0
P_C16 == P_Ev /\ P_Q
=======================================================================================
