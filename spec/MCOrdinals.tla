--------------------------------- MODULE MCOrdinals --------------------------------
(***************************************************************************************)
(* C01, design level: the operational slot walk of the helpers (LoopSlots, transcribed *)
(* in Reconcile.tla) computes exactly the declarative desired set, for every replica   *)
(* count and every slot set of a bounded range (negative slots included).              *)
(***************************************************************************************)
EXTENDS Reconcile
CONSTANTS MaxR, NegLo, Hi     \* slots range over -NegLo..Hi (a cfg file cannot hold a negative number)
Lo == 0 - NegLo
VARIABLES r, S
Init == r \in 0..MaxR /\ S \in SUBSET (Lo..Hi)
Next == UNCHANGED <<r, S>>

\* what the property says about a set O of ordinals, without reference to any algorithm
IsDesiredSet(rr, SS, O) ==
  /\ Cardinality(O) = rr
  /\ O \cap SS = {}
  /\ \A x \in O : x >= 0
  /\ \A x \in O : \A k \in 0..(x - 1) : k \in SS \/ k \in O       \* each member is the least free integer

DeclBound(rr, SS) == IF rr = 0 THEN 0 ELSE MaxOf(Desired(rr, SS)) + 1
Inv == /\ IsDesiredSet(r, S, Desired(r, S))
       /\ Ordinals(r, S) = Desired(r, S)
       /\ Bound(r, S) = DeclBound(r, S)
       /\ EffSlots(r, S) = {s \in S : s >= 0 /\ s < DeclBound(r, S)}
       /\ \A O \in SUBSET (0..(MaxR + Hi + 1)) : IsDesiredSet(r, S, O) => O = Desired(r, S)   \* uniqueness
       \* lemma that links OrdinalsInd.tla (Apalache: all integer slot values) to the desired set: the three facts of its
       \* 'Final' - bound = r + |eff|, eff = the slots inside [0, bound) - give exactly Desired (the bound itself
       \* is not determined by them: r = 0, S = {0} admits b = 0 and b = 1; the walk's bound is checked above)
       /\ \A b \in 0..(MaxR + Hi + 2) :
             LET E == {s \in S : s >= 0 /\ s < b} IN
               b = r + Cardinality(E) => (0..(b - 1)) \ E = Desired(r, S)
=======================================================================================
