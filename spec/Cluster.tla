----------------------------------- MODULE Cluster ----------------------------------
(***************************************************************************************)
(* The cluster around one Advanced StatefulSet: the API server's truth, the            *)
(* controller's informer caches (which lag), the kubelet, the user, an adversary that  *)
(* injects API failures and process deaths, and the controller, whose reconcile is the *)
(* function Sync of Reconcile.tla applied to the snapshot (cached set + cached pods +  *)
(* live revisions + what an uncached GET returns).                                     *)
(*                                                                                     *)
(* A reconcile is one step: the snapshot is taken, Sync yields the ordered calls with  *)
(* their results, and the calls that took effect are applied to the API state.  (The   *)
(* controller keeps nothing between reconciles and reads its caches once, so letting   *)
(* other actors move between two calls of one reconcile adds no behaviour that is not  *)
(* also produced by cache lag plus injected failures, both of which are modelled.)     *)
(*                                                                                     *)
(* This is the state machine the history properties are checked on (C02 convergence    *)
(* and quiescence, C03 scale-in at a slot, C08, C09 recovery, C11 pause, C12 census),  *)
(* and the one whose behaviours are replayed on the real controller (harness sim).     *)
(***************************************************************************************)
EXTENDS Props

CONSTANTS MaxOrd,        \* pod ordinals 0..MaxOrd
          MaxRep,        \* spec.replicas in 0..MaxRep
          Tmpls,         \* templates the user may switch between, e.g. {"t0","t1"}
          Policies, Strats,          \* initial choices, e.g. {"OrderedReady","Parallel"}, {"RollingUpdate","OnDelete"}
          Edits, Faults, Fails,      \* budgets: user edits, injected API faults, kubelet-side failures
          MaxFaultPos,               \* injected faults hit plan positions 1..MaxFaultPos (or list calls 1..4)
          QueueDriven,               \* TRUE: the controller reconciles only when its work queue holds the key (no resync)
          ClaimCounts,               \* how many volume claim templates the set may have: a subset of {0, 1} (the template is "c0")
          InitMode                   \* "empty": start from an empty cluster; "any": first scramble the pods into any state

VARIABLES api,      \* [set, pods, revs, pvcs, owed, clock]  the truth (pvcs: names of the claims that exist; owed: the
                    \*    undelivered part of the pod watch stream holds an event that will enqueue the set)
          cache,    \* [set, pods, pvcs, queued]       what the informers show; queued: the set's key is in the work queue
          budget,   \* [edits, faults, fails]
          last,     \* what the last step was (output only; hidden by the VIEW of exhaustive runs)
          lvl       \* 0..MaxOrd: pod lvl is still to be scrambled (InitMode "any"); MaxOrd+1: the system runs
vars == <<api, cache, budget, last, lvl>>

Ords   == 0..MaxOrd
Absent == [present |-> FALSE, phase |-> "", ready |-> FALSE, term |-> FALSE, rev |-> "", owner |-> "", uid |-> 0]   \* uid: incarnation
NAME   == "foo"
ClaimOf(o) == "c0-" \o NAME \o "-" \o ToString(o)      \* the claim of ordinal o (claim template "c0")

---------------------------------------------------------------------------------------
(* projections to the snapshot records of Reconcile.tla                                *)

MkPodRec(o, p, apiPods) ==
  [new |-> FALSE, name |-> NAME \o "-" \o ToString(o), ord |-> o, member |-> TRUE, match |-> TRUE, owner |-> p.owner,
   phase |-> p.phase, ready |-> p.ready, term |-> p.term, rev |-> p.rev, identOK |-> TRUE, storOK |-> TRUE,
   uidOK |-> apiPods[o].present /\ apiPods[o].uid = p.uid]
\* pods as a snapshot sees them; apiPods tells which of them are still the same incarnation in the API
PodSeqOf2(pods, apiPods) == LET S == {o \in Ords : pods[o].present} IN
                            SetToSortSeq({MkPodRec(o, pods[o], apiPods) : o \in S}, LAMBDA a, b : a.ord < b.ord)
PodSeqOf(pods) == PodSeqOf2(pods, pods)

SetRecOf(s) == [name |-> NAME, cached |-> TRUE, replicas |-> s.replicas, slots |-> s.slots, policy |-> s.policy,
                \* "RollingUpdateBare": type RollingUpdate without the rollingUpdate block (a spec that was not defaulted)
                strat |-> IF s.strat = "RollingUpdateBare" THEN "RollingUpdate" ELSE s.strat,
                ruBlock |-> s.strat = "RollingUpdate", partPresent |-> s.strat = "RollingUpdate", part |-> s.part,
                tmpl |-> s.tmpl, paused |-> s.paused, deleting |-> s.deleting, histLimit |-> s.histLimit, selectorOK |-> TRUE,
                gen |-> s.gen, status |-> s.status, claims |-> IF s.nclaims = 1 THEN <<"c0">> ELSE <<>>]

\* the snapshot a reconcile reads in state s = [api, cache], with the adversary's faults fs
SnapS(s, fs) == [set   |-> SetRecOf(s.cache.set), pods |-> PodSeqOf2(s.cache.pods, s.api.pods), revs |-> s.api.revs, pvcs |-> s.cache.pvcs,
                 fresh |-> [exists |-> TRUE, sameUid |-> TRUE, deleting |-> s.api.set.deleting, rvSame |-> s.api.set.rv = s.cache.set.rv],
                 apods |-> ApiFromCache(PodSeqOf(s.api.pods)), apvcs |-> s.api.pvcs, faults |-> fs, cacheIntact |-> TRUE]

\* The informer event handlers (stateful_set.go addPod / updatePod / deletePod; Handlers.tla has the full decision table)
\* for the one set of this model, whose selector every pod matches: does the event that turns the cached pod `old` into
\* `new` put the set's key on the queue?
\* (PodEventEv: for an event that really is one - the informer delivers every version of a pod, in order)
PodEventEv(old, new) ==
  IF ~old.present /\ ~new.present THEN FALSE
  ELSE IF ~old.present THEN (IF new.term THEN new.owner = "self" ELSE new.owner \in {"self", "none"})        \* add
  ELSE IF ~new.present THEN old.owner = "self"                                                                \* delete
  ELSE LET refChanged == old.owner # new.owner IN                                                            \* update
       (refChanged /\ old.owner = "self") \/ new.owner = "self" \/ (new.owner = "none" /\ refChanged)
PodEventEnq(old, new) == IF old = new THEN FALSE ELSE PodEventEv(old, new)
\* the wake-up the undelivered part of the pod watch stream carries: set by every change of a pod in the API
OwedBy(podsBefore, podsAfter) == \E o \in Ords : PodEventEnq(podsBefore[o], podsAfter[o])
Q(v) == IF QueueDriven THEN v ELSE FALSE

---------------------------------------------------------------------------------------
(* effect of API calls on the truth (the semantics MiniAPI implements)                 *)

OrdOfName(n) == CHOOSE o \in 0..(MaxOrd + MaxRep + 2) : NAME \o "-" \o ToString(o) = n
Took(c) == c[6] \in {"ok", "TimeoutApplied", "DiedApplied"}     \* the call changed the API

ApplyCall(a, c) ==
  IF ~Took(c) THEN a
  ELSE IF IsPodCreate(c) THEN
       LET o == Ints(c)[1] IN
       IF o \in Ords /\ ~a.pods[o].present
       THEN [a EXCEPT !.pods[o] = [present |-> TRUE, phase |-> "Pending", ready |-> FALSE, term |-> FALSE, rev |-> Det(c), owner |-> "self",
                                   uid |-> a.clock],
                      !.clock = @ + 1]
       ELSE a
  ELSE IF IsClaimCall(c) /\ Verb(c) = "create" THEN [a EXCEPT !.pvcs = @ \cup {Name(c)}]
  ELSE IF IsPodDelete(c) THEN
       LET o == OrdOfName(Name(c)) IN
       IF o \notin Ords \/ ~a.pods[o].present THEN a
       ELSE IF a.pods[o].phase \in {"Failed", "Succeeded", "Pending"} THEN [a EXCEPT !.pods[o] = Absent]     \* gone at once
       ELSE [a EXCEPT !.pods[o].term = TRUE]                                                                  \* graceful
  ELSE IF IsPodPatch(c) THEN
       LET o == OrdOfName(Name(c)) IN
       IF o \notin Ords \/ ~a.pods[o].present THEN a
       ELSE [a EXCEPT !.pods[o].owner = IF Det(c) = "adopt" THEN "self" ELSE "none"]
  ELSE IF IsStatus(c) THEN
       [a EXCEPT !.set.status = StatusOfCall(c), !.set.rv = @ + 1]
  ELSE IF IsRevCreate(c) THEN
       [a EXCEPT !.revs = Append(@, [name |-> Name(c), tmpl |-> Det(c), num |-> Ints(c)[1], created |-> a.clock, owner |-> "self",
                                     marker |-> FALSE, sel |-> TRUE, rank |-> 100 + a.clock]),
                 !.clock = @ + 1]
  ELSE IF IsRevUpdate(c) /\ Det(c) = "renumber" THEN
       [a EXCEPT !.revs = [k \in 1..Len(@) |-> IF @[k].name = Name(c) THEN [@[k] EXCEPT !.num = Ints(c)[1]] ELSE @[k]]]
  ELSE IF IsRevPatch(c) /\ Det(c) = "adopt" THEN
       [a EXCEPT !.revs = [k \in 1..Len(@) |-> IF @[k].name = Name(c) THEN [@[k] EXCEPT !.owner = "self"] ELSE @[k]]]
  ELSE IF IsRevUpdate(c) /\ Det(c) = "labels" THEN
       [a EXCEPT !.revs = [k \in 1..Len(@) |-> IF @[k].name = Name(c) THEN [@[k] EXCEPT !.sel = TRUE] ELSE @[k]]]
  ELSE IF IsRevDelete(c) THEN
       [a EXCEPT !.revs = SelectSeq(@, LAMBDA x : x.name # Name(c))]
  ELSE a

\* (every call is a version of its own in the watch stream: what it owes is accumulated call by call)
RECURSIVE ApplyCalls(_, _, _)
ApplyCalls(a, calls, k) ==
  IF k > Len(calls) THEN a
  ELSE LET b == ApplyCall(a, calls[k]) IN
       ApplyCalls([b EXCEPT !.owed = IF QueueDriven THEN a.owed \/ OwedBy(a.pods, b.pods) ELSE FALSE], calls, k + 1)

\* pod and revision populations of initial / scrambled states
Migrating == InitMode = "migration"
\* ordinarily revisions are the set's own; after helper.Upgrade they still belong to the built-in set (until the garbage
\* collector orphans them), carry the upgrade marker and no longer the selector labels
InitRev(t, n) == [name |-> t \o ".0", tmpl |-> t, num |-> n, created |-> n, owner |-> IF Migrating THEN "other" ELSE "self",
                  marker |-> Migrating, sel |-> ~Migrating, rank |-> n]
InitRevs     == {<<>>} \cup {<<InitRev(t, 1)>> : t \in Tmpls}
                \cup {<<InitRev(q[1], 1), InitRev(q[2], 2)>> : q \in {z \in Tmpls \X Tmpls : z[1] # z[2]}}
RevNames(rs) == {rs[k].name : k \in 1..Len(rs)}
PodStates(rs) == IF Migrating    \* the running pods of the built-in set
                 THEN {Absent} \cup [present : {TRUE}, phase : {"Running"}, ready : BOOLEAN, term : {FALSE}, rev : RevNames(rs), owner : {"other"}, uid : {0}]
                 ELSE {Absent} \cup [present : {TRUE}, phase : {"Pending", "Running", "Failed"}, ready : BOOLEAN, term : BOOLEAN,
                                     rev : RevNames(rs), owner : {"self", "none"}, uid : {0}]
GoodPod(p) == IF p.present THEN (p.ready => p.phase = "Running") /\ (p.phase = "Pending" => ~p.term) ELSE TRUE

---------------------------------------------------------------------------------------
(* actions                                                                             *)

Running == lvl = MaxOrd + 1
Here    == [api |-> api, cache |-> cache]
Snap(fs) == SnapS(Here, fs)
InRange(r, S) == Desired(r, S) \subseteq Ords

(* Every action is a record a = [act |-> name, ...arguments]; Guard(s, a) says when it may happen in state        *)
(* s = [api, cache] and Effect(s, a) is the state it leads to.  They are pure operators, so the same definitions   *)
(* drive TLC (below) and judge executions recorded from the real system (TraceCluster.tla).                        *)


Bump(set, specChange) == [set EXCEPT !.rv = @ + 1, !.gen = IF specChange THEN @ + 1 ELSE @]
DeleteOf(p) == IF p.phase \in {"Failed", "Succeeded", "Pending"} THEN Absent ELSE [p EXCEPT !.term = TRUE]   \* the API server's grace rule

Guard(s, a) ==
  LET api_ == s.api pod == IF "o" \in DOMAIN a THEN api_.pods[a.o] ELSE Absent IN
  CASE a.act = "Reconcile"         -> QueueDriven => s.cache.queued
    [] a.act = "SyncSetCache"      -> s.cache.set # api_.set
    [] a.act = "SyncPodCache"      -> s.cache.pods # api_.pods \/ api_.owed
    [] a.act = "SyncPvcCache"      -> s.cache.pvcs # api_.pvcs
    [] a.act = "PodRunning"        -> pod.present /\ pod.phase = "Pending" /\ ~pod.term
    [] a.act = "PodReady"          -> pod.present /\ pod.phase = "Running" /\ ~pod.ready
    [] a.act = "FinishTerminating" -> pod.present /\ pod.term
    [] a.act = "PodUnready"        -> pod.present /\ pod.phase = "Running" /\ pod.ready
    [] a.act = "PodFail"           -> pod.present /\ pod.phase \in {"Pending", "Running"}
                                      /\ (a.o \in Desired(api_.set.replicas, api_.set.slots) \/ api_.set.policy = "Parallel")   \* the premise of C02
    [] a.act = "SetReplicas"       -> ~api_.set.deleting /\ a.r # api_.set.replicas /\ InRange(a.r, api_.set.slots)
    [] a.act = "SetSlots"          -> ~api_.set.deleting /\ a.slots # api_.set.slots /\ InRange(api_.set.replicas, a.slots)
    [] a.act = "ScaleInAt"         -> ~api_.set.deleting /\ a.k \in Desired(api_.set.replicas, api_.set.slots) /\ api_.set.replicas > 0
    [] a.act = "EditTemplate"      -> ~api_.set.deleting /\ a.t # api_.set.tmpl
    [] a.act = "SetPartition"      -> ~api_.set.deleting /\ api_.set.strat = "RollingUpdate" /\ a.p # api_.set.part
    [] a.act = "Pause"             -> ~api_.set.deleting /\ ~api_.set.paused
    [] a.act = "Unpause"           -> api_.set.paused
    [] a.act = "DeletePodByHand"   -> pod.present /\ ~pod.term
    \* the garbage collector orphans the dependents of the deleted built-in set, one object at a time
    [] a.act = "GCOrphanPod"       -> pod.present /\ pod.owner = "other"
    [] a.act = "GCOrphanRev"       -> a.k \in 1..Len(api_.revs) /\ api_.revs[a.k].owner = "other"
    [] OTHER                       -> FALSE

EffectRaw(s, a) ==
  LET api_ == s.api IN
  CASE a.act = "Reconcile" ->
         LET sn == SnapS(s, a.faults)
             r  == Sync(sn)
             a2 == ApplyCalls(api_, r.calls, 1) IN
         \* a restarted controller re-lists (and the listed set arrives as an add event); a failed reconcile is put back
         \* (rate limited), a successful one leaves the queue empty
         IF r.res = "died" THEN [api |-> [a2 EXCEPT !.owed = FALSE],       \* (the re-list shows the latest state: nothing is owed)
                                 cache |-> [set |-> a2.set, pods |-> a2.pods, pvcs |-> a2.pvcs, queued |-> Q(TRUE)]]
         ELSE [api |-> a2, cache |-> [s.cache EXCEPT !.queued = Q(r.res # "ok")]]
    [] a.act = "SyncSetCache"      -> [s EXCEPT !.cache.set = api_.set, !.cache.queued = Q(TRUE)]      \* the set handlers always enqueue
    [] a.act = "SyncPodCache"      -> [s EXCEPT !.cache.pods = api_.pods, !.cache.queued = Q(@ \/ api_.owed), !.api.owed = FALSE]
    [] a.act = "SyncPvcCache"      -> [s EXCEPT !.cache.pvcs = api_.pvcs]
    [] a.act = "PodRunning"        -> [s EXCEPT !.api.pods[a.o].phase = "Running"]
    [] a.act = "PodReady"          -> [s EXCEPT !.api.pods[a.o].ready = TRUE]
    [] a.act = "FinishTerminating" -> [s EXCEPT !.api.pods[a.o] = Absent]
    [] a.act = "PodUnready"        -> [s EXCEPT !.api.pods[a.o].ready = FALSE]
    [] a.act = "PodFail"           -> [s EXCEPT !.api.pods[a.o].phase = "Failed", !.api.pods[a.o].ready = FALSE]
    [] a.act = "SetReplicas"       -> [s EXCEPT !.api.set = Bump([@ EXCEPT !.replicas = a.r], TRUE)]
    [] a.act = "SetSlots"          -> [s EXCEPT !.api.set = Bump([@ EXCEPT !.slots = a.slots], FALSE)]
    [] a.act = "ScaleInAt"         -> [s EXCEPT !.api.set = Bump([@ EXCEPT !.slots = @ \cup {a.k}, !.replicas = @ - 1], TRUE)]
    [] a.act = "EditTemplate"      -> [s EXCEPT !.api.set = Bump([@ EXCEPT !.tmpl = a.t], TRUE)]
    [] a.act = "SetPartition"      -> [s EXCEPT !.api.set = Bump([@ EXCEPT !.part = a.p], TRUE)]
    [] a.act = "Pause"             -> [s EXCEPT !.api.set = Bump([@ EXCEPT !.paused = TRUE], FALSE)]
    [] a.act = "Unpause"           -> [s EXCEPT !.api.set = Bump([@ EXCEPT !.paused = FALSE], FALSE)]
    [] a.act = "DeletePodByHand"   -> [s EXCEPT !.api.pods[a.o] = DeleteOf(@)]
    [] a.act = "GCOrphanPod"       -> [s EXCEPT !.api.pods[a.o].owner = "none"]
    [] a.act = "GCOrphanRev"       -> [s EXCEPT !.api.revs[a.k].owner = "none"]
    [] a.act = "Scramble"          -> LET q == a.pod
                                          p == IF q.present THEN [present |-> TRUE, phase |-> q.phase, ready |-> q.ready, term |-> q.term,
                                                                  rev |-> q.rev, owner |-> q.owner, uid |-> api_.clock]
                                               ELSE Absent
                                          cl == IF a.claim THEN {ClaimOf(a.o)} ELSE {} IN
                                      [s EXCEPT !.api.pods[a.o] = p, !.cache.pods[a.o] = p, !.api.clock = @ + 1,
                                                !.api.pvcs = @ \cup cl, !.cache.pvcs = @ \cup cl]
    [] OTHER                       -> s

\* every change of a pod made by anybody but the controller is one more version in the watch stream, too (the initial
\* population of Scramble is in the cache from the start and owes nothing)
Effect(s, a) ==
  LET t == EffectRaw(s, a) IN
  IF ~QueueDriven \/ a.act \in {"Reconcile", "SyncPodCache", "Scramble"} THEN t
  ELSE [t EXCEPT !.api.owed = s.api.owed \/ OwedBy(s.api.pods, t.api.pods)]

\* who pays for what
IsEdit(a)    == a.act \in {"SetReplicas", "SetSlots", "ScaleInAt", "EditTemplate", "SetPartition", "Pause", "DeletePodByHand"}
IsTrouble(a) == a.act \in {"PodUnready", "PodFail"}
IsFaulty(a)  == a.act = "Reconcile" /\ a.faults # <<>>
Affordable(a) == (IsEdit(a) => budget.edits > 0) /\ (IsTrouble(a) => budget.fails > 0) /\ (IsFaulty(a) => budget.faults > 0)

Do(a) == /\ Running /\ Guard(Here, a) /\ Affordable(a)
         /\ LET s2 == Effect(Here, a) IN api' = s2.api /\ cache' = s2.cache
         /\ budget' = [edits  |-> IF IsEdit(a) THEN budget.edits - 1 ELSE budget.edits,
                       faults |-> IF IsFaulty(a) THEN budget.faults - 1 ELSE budget.faults,
                       fails  |-> IF IsTrouble(a) THEN budget.fails - 1 ELSE budget.fails]
         \* the step that was taken, with the reconcile's return value (output only)
         /\ last' = IF a.act = "Reconcile" THEN [res |-> Sync(Snap(a.faults)).res] @@ a ELSE a
         /\ UNCHANGED lvl

\* the adversary's choices for one reconcile
FaultChoices ==
  IF budget.faults = 0 THEN {<<>>}
  ELSE {<<>>} \cup { <<[k |-> k, kind |-> kd[1], applied |-> kd[2], die |-> kd[3], list |-> 0]>> :
                        k \in 1..MaxFaultPos, kd \in {<<"ServerError", FALSE, FALSE>>, <<"Conflict", FALSE, FALSE>>, <<"NotFound", FALSE, FALSE>>,
                                                      <<"Timeout", TRUE, FALSE>>, <<"Die", FALSE, TRUE>>, <<"Die", TRUE, TRUE>>} }
              \cup { <<[k |-> 0, kind |-> "ServerError", applied |-> FALSE, die |-> FALSE, list |-> j]>> : j \in {1, 3} }
Reconcile(fs)        == Do([act |-> "Reconcile", faults |-> fs])
SyncSetCache         == Do([act |-> "SyncSetCache"])
SyncPodCache         == Do([act |-> "SyncPodCache"])
SyncPvcCache         == Do([act |-> "SyncPvcCache"])
PodRunning(o)        == Do([act |-> "PodRunning", o |-> o])
PodReady(o)          == Do([act |-> "PodReady", o |-> o])
FinishTerminating(o) == Do([act |-> "FinishTerminating", o |-> o])
Unpause              == Do([act |-> "Unpause"])

Controller == \E fs \in FaultChoices : Reconcile(fs)
Informers  == SyncSetCache \/ SyncPodCache \/ SyncPvcCache
Kubelet    == \E o \in Ords : PodRunning(o) \/ PodReady(o) \/ FinishTerminating(o)
Trouble    == \E o \in Ords : Do([act |-> "PodUnready", o |-> o]) \/ Do([act |-> "PodFail", o |-> o])
User       == \/ \E r \in 0..MaxRep : Do([act |-> "SetReplicas", r |-> r])
              \/ \E k \in Ords : Do([act |-> "ScaleInAt", k |-> k])
              \/ \E S \in SUBSET Ords : Do([act |-> "SetSlots", slots |-> S])
              \/ \E t \in Tmpls : Do([act |-> "EditTemplate", t |-> t])
              \/ \E p \in 0..(MaxOrd + 1) : Do([act |-> "SetPartition", p |-> p])
              \/ Do([act |-> "Pause"]) \/ Unpause
              \/ \E o \in Ords : Do([act |-> "DeletePodByHand", o |-> o])
GCOrphanPod(o) == Do([act |-> "GCOrphanPod", o |-> o])
GCOrphanRev(k) == Do([act |-> "GCOrphanRev", k |-> k])
GC         == (\E o \in Ords : GCOrphanPod(o)) \/ (\E k \in 1..Len(api.revs) : GCOrphanRev(k))

\* "from any cluster state" (C02): before the system runs, each pod slot is put into an arbitrary state, in the API
\* and in the cache alike (cache lag then arises from the system's own steps)
Scramble(o) == /\ lvl = o /\ o <= MaxOrd
               /\ \E p \in PodStates(api.revs) :
                     /\ GoodPod(p)
                     \* the fairness premise of C02: a Failed pod outside the desired set blocks an OrderedReady set by design
                     /\ (p.phase = "Failed" => (o \in Desired(api.set.replicas, api.set.slots) \/ api.set.policy = "Parallel"))
                     \* a pod of a set with a claim template has its claim; the claim of an absent pod may be left from earlier
                     /\ \E cl \in (IF api.set.nclaims = 0 THEN {FALSE} ELSE IF p.present THEN {TRUE} ELSE BOOLEAN) :
                        LET a == [act |-> "Scramble", o |-> o, pod |-> p, claim |-> cl] s2 == Effect(Here, a) IN
                        api' = s2.api /\ cache' = s2.cache /\ last' = a
               /\ lvl' = lvl + 1 /\ UNCHANGED budget

---------------------------------------------------------------------------------------
(* initial states: any type-correct cluster within the bounds (C02: "from any state")  *)


InitSets(rs) ==
  [replicas : 0..MaxRep, slots : SUBSET Ords, policy : Policies, strat : Strats, part : 0..1, tmpl : Tmpls, paused : {FALSE},
   deleting : {FALSE}, histLimit : {1}, gen : {1}, rv : {1}, nclaims : ClaimCounts,
   \* (a migrated set may carry a collision count: its revisions were then named, and labelled, with an earlier count)
   status : [obsGen : {0}, replicas : {0}, ready : {0}, current : {0}, updated : {0}, collisions : IF Migrating THEN {0, 1} ELSE {0},
             curRev : IF rs = <<>> THEN {""} ELSE {"", rs[1].name}, updRev : IF rs = <<>> THEN {""} ELSE {"", rs[Len(rs)].name}]]

BlankSet == [replicas |-> 0, slots |-> {}, policy |-> "OrderedReady", strat |-> "RollingUpdate", part |-> 0, tmpl |-> "t0", paused |-> FALSE,
             deleting |-> FALSE, histLimit |-> 1, gen |-> 1, rv |-> 1, nclaims |-> 0,
             status |-> [obsGen |-> 0, replicas |-> 0, ready |-> 0, current |-> 0, updated |-> 0, collisions |-> 0, curRev |-> "", updRev |-> ""]]
GoodSet(s) == (s.strat # "RollingUpdate" => s.part = 0) /\ Desired(s.replicas, s.slots) \subseteq Ords    \* no ordinals beyond MaxOrd

\* InitMode "empty": every spec over an empty cluster is an initial state.
\* InitMode "any":   one blank initial state; the first step (Setup) picks the spec and the revision history, the next
\*                   MaxOrd+1 steps (Scramble) the pods - so that TLC's simulator does not have to enumerate all of them up front.
\* a set just converted from a built-in one: its template is the one of the newest built-in revision, its status is the
\* built-in set's (or still empty, in the window before the helper has written it)
MigratedSets(rs) == {s \in InitSets(rs) : /\ rs # <<>> /\ s.tmpl = rs[Len(rs)].tmpl
                                         /\ ((s.status.curRev = rs[1].name /\ s.status.updRev = rs[Len(rs)].name)
                                              \/ (s.status.curRev = "" /\ s.status.updRev = ""))}

Init == /\ IF InitMode = "empty"
           THEN \E s \in InitSets(<<>>) : GoodSet(s) /\ api = [set |-> s, pods |-> [o \in Ords |-> Absent], revs |-> <<>>, pvcs |-> {}, owed |-> FALSE, clock |-> 10]
                                                    /\ cache = [set |-> s, pods |-> [o \in Ords |-> Absent], pvcs |-> {}, queued |-> Q(TRUE)]
           ELSE /\ api = [set |-> BlankSet, pods |-> [o \in Ords |-> Absent], revs |-> <<>>, pvcs |-> {}, owed |-> FALSE, clock |-> 10]
                /\ cache = [set |-> BlankSet, pods |-> [o \in Ords |-> Absent], pvcs |-> {}, queued |-> FALSE]
        /\ budget = [edits |-> Edits, faults |-> Faults, fails |-> Fails]
        /\ last = [act |-> "Init"]
        /\ lvl = IF InitMode = "empty" THEN MaxOrd + 1 ELSE -1

Setup == /\ lvl = -1
         /\ \E rs \in InitRevs : \E s \in (IF Migrating THEN MigratedSets(rs) ELSE InitSets(rs)) :
               /\ GoodSet(s)
               /\ api' = [api EXCEPT !.set = s, !.revs = rs] /\ cache' = [cache EXCEPT !.set = s, !.queued = Q(TRUE)]
               /\ last' = [act |-> "Setup", set |-> s, revs |-> rs]
         /\ lvl' = 0 /\ UNCHANGED budget

Next == \/ Controller \/ Informers \/ Kubelet \/ Trouble \/ User \/ GC
        \/ Setup \/ \E o \in Ords : Scramble(o)

---------------------------------------------------------------------------------------
(* properties                                                                          *)

(* State predicates are written over a state s = [api, cache], so that they can be evaluated on TLC's current state   *)
(* (Here) and on states recorded from the real system alike.                                                            *)

DesiredOf(s)    == Desired(s.api.set.replicas, s.api.set.slots)
TmplOfRevS(s, n) == LET S == {k \in 1..Len(s.api.revs) : s.api.revs[k].name = n} IN
                    IF S = {} THEN "?" ELSE s.api.revs[CHOOSE k \in S : TRUE].tmpl
SameSet(a, b)   == [a EXCEPT !.rv = 0] = [b EXCEPT !.rv = 0]

\* exactly the desired pods, all Running and Ready, each at the revision its ordinal calls for
PodsRightS(s) ==
  LET a == s.api IN
  /\ \A o \in Ords : a.pods[o].present <=> o \in DesiredOf(s)
  /\ DesiredOf(s) \subseteq Ords
  /\ \A o \in DesiredOf(s) : LET p == a.pods[o] IN
        /\ p.phase = "Running" /\ p.ready /\ ~p.term /\ p.owner = "self"
        /\ (a.set.strat \in {"RollingUpdate", "RollingUpdateBare"} /\ o >= a.set.part) => TmplOfRevS(s, p.rev) = a.set.tmpl
CaughtUpS(s) == SameSet(s.cache.set, s.api.set) /\ s.cache.set.rv = s.api.set.rv /\ s.cache.pods = s.api.pods /\ s.cache.pvcs = s.api.pvcs
                /\ ~s.api.owed
NoWritesS(s) == LET r == Sync(SnapS(s, <<>>)) IN r.res = "ok" /\ \A k \in 1..Len(r.calls) : ~IsWrite(r.calls[k])

\* the fixed point of C02: the pods are right, the caches have caught up, and a reconcile has nothing left to write
ConvergedS(s) == /\ ~s.api.set.paused /\ ~s.api.set.deleting
                 /\ PodsRightS(s) /\ CaughtUpS(s) /\ NoWritesS(s)
Converged == ConvergedS(Here)

\* C02 / C12 at the fixed point: the status tells the truth - replicas = readyReplicas = spec.replicas, the generation is
\* the observed one, the four counters are an exact census of the live pods, the update revision mirrors the template,
\* and the history is within its limit
StatusTruthS(s) ==
  LET a == s.api live == {o \in Ords : a.pods[o].present}
      used == {a.set.status.curRev, a.set.status.updRev} \cup {a.pods[o].rev : o \in live} IN
  ConvergedS(s) =>
  /\ a.set.status.replicas = a.set.replicas /\ a.set.status.ready = a.set.replicas /\ a.set.status.obsGen = a.set.gen
  /\ a.set.status.replicas = Cardinality(live)
  /\ a.set.status.ready    = Cardinality({o \in live : a.pods[o].phase = "Running" /\ a.pods[o].ready})
  /\ a.set.status.current  = Cardinality({o \in live : ~a.pods[o].term /\ a.pods[o].rev = a.set.status.curRev})
  /\ a.set.status.updated  = Cardinality({o \in live : ~a.pods[o].term /\ a.pods[o].rev = a.set.status.updRev})
  /\ TmplOfRevS(s, a.set.status.updRev) = a.set.tmpl
  /\ Cardinality({k \in 1..Len(a.revs) : a.revs[k].name \notin used}) <= a.set.histLimit
StatusTruth == StatusTruthS(Here)
\* once the pods are right and everything has caught up, at most the bookkeeping is left: no pod is touched any more
QuietPodsS(s) == (PodsRightS(s) /\ CaughtUpS(s) /\ ~s.api.set.paused /\ ~s.api.set.deleting) =>
                   LET r == Sync(SnapS(s, <<>>)) IN \A k \in 1..Len(r.calls) : r.calls[k][2] \notin {"pods", "persistentvolumeclaims"}
QuietPods == QuietPodsS(Here)

\* every reconcile that can start in a reachable state (stale caches, one injected fault) satisfies the per-reconcile properties
RS(P(_, _)) == \A fs \in FaultChoices : LET sn == Snap(fs) IN P(sn, Sync(sn))
RS_C03 == RS(LAMBDA sn, r : C03(sn, r.calls))
RS_C04 == RS(LAMBDA sn, r : C04(sn, r.calls))
RS_C05 == RS(LAMBDA sn, r : C05(sn, r.calls))
RS_C07 == RS(LAMBDA sn, r : C07(sn, r.calls))
RS_C09 == RS(LAMBDA sn, r : C09(sn, r.calls, r.res))
RS_C10 == RS(LAMBDA sn, r : C10(sn, r.calls, r.res))
RS_C11 == RS(LAMBDA sn, r : C11(sn, r.calls))
RS_C12 == RS(LAMBDA sn, r : C12(sn, r.calls))
RS_C13 == RS(LAMBDA sn, r : C13(sn, r.calls, r.res))
RS_C14 == RS(LAMBDA sn, r : C14(sn, r.calls, r.res))
ReconcileSafe == RS_C03 /\ RS_C04 /\ RS_C05 /\ RS_C07 /\ RS_C09 /\ RS_C10 /\ RS_C11 /\ RS_C12 /\ RS_C13 /\ RS_C14

\* C08: a successful reconcile of a set whose recorded update revision already carries the template it reconciles
\* (nothing but replicas, delete-slots, the pause flag or other metadata was edited) keeps that update revision
\* and adds no revision - so scaling can never start a rollout.  s -> t is a Reconcile step with result res.
NoRestartStep(s, t, res) ==
  (res = "ok" /\ ~s.cache.set.paused /\ TmplOfRevS(s, s.api.set.status.updRev) = s.cache.set.tmpl)
     => (t.api.set.status.updRev = s.api.set.status.updRev /\ Len(t.api.revs) <= Len(s.api.revs))
NoRestartOnScale ==
  [][ last'.act = "Reconcile" => NoRestartStep(Here, [api |-> api', cache |-> cache'], last'.res) ]_vars

\* C03, last clause: scale-in at slot k takes away pod k and no other: a pod that is desired, live, up to date and
\* correctly cached is left alone by every reconcile (only kubelet-side trouble or the user can take it away)
StaysPutS(s, o) ==
  LET a == s.api p == a.pods[o] IN
  /\ s.cache.pods[o] = p
  /\ p.present /\ ~p.term /\ p.phase = "Running" /\ p.ready
  /\ o \in DesiredOf(s) /\ o \in Desired(s.cache.set.replicas, s.cache.set.slots)
  /\ TmplOfRevS(s, p.rev) = a.set.tmpl /\ s.cache.set.tmpl = a.set.tmpl
  /\ TmplOfRevS(s, p.rev) = TmplOfRevS(s, a.set.status.updRev)
NoCollateralStep(s, t) == \A o \in Ords : StaysPutS(s, o) => (t.api.pods[o].present /\ ~t.api.pods[o].term)
NoCollateralDelete ==
  [][ last'.act = "Reconcile" => NoCollateralStep(Here, [api |-> api', cache |-> cache']) ]_vars

\* C07 over histories.  (a) a reconcile takes at most one healthy, desired, correctly cached pod away (that can only be
\* an update delete); (b) the recorded current revision advances only in a reconcile that saw every pod at the update
\* revision, Running and Ready - otherwise "built from the current revision" would lose its meaning below the partition
HealthyPodS(p) == p.present /\ ~p.term /\ p.phase = "Running" /\ p.ready
TakenAwayS(s, t) == {o \in Ords : /\ HealthyPodS(s.api.pods[o]) /\ s.cache.pods[o] = s.api.pods[o]
                                  /\ o \in DesiredOf(s) /\ o \in Desired(s.cache.set.replicas, s.cache.set.slots)
                                  /\ (~t.api.pods[o].present \/ t.api.pods[o].term \/ t.api.pods[o].uid # s.api.pods[o].uid)}
OneDownStep(s, t) == Cardinality(TakenAwayS(s, t)) <= 1
CurAdvanceStep(s, t) ==
  LET old == s.cache.set.status.curRev new == t.api.set.status IN
  (t.api.set.status # s.api.set.status /\ new.curRev # old /\ \E k \in 1..Len(s.api.revs) : s.api.revs[k].name = old) =>
     /\ new.curRev = new.updRev
     \* (pods the set controls as far as its cache shows; an orphan it could not adopt is not one of its pods - the
     \* per-reconcile form of this rule, CurAdvanceOK, is exact about adoption and is checked on every recorded reconcile)
     /\ \A o \in Ords : (s.cache.pods[o].present /\ s.cache.pods[o].owner = "self") =>
                             (HealthyPodS(s.cache.pods[o]) /\ s.cache.pods[o].rev = new.updRev)
RollsOneAtATime ==
  [][ last'.act = "Reconcile" => (OneDownStep(Here, [api |-> api', cache |-> cache']) /\ CurAdvanceStep(Here, [api |-> api', cache |-> cache'])) ]_vars

\* C02: convergence, under the premise that the user stops, faults stop, caches catch up and the kubelet makes progress
Fairness == /\ WF_vars(Setup) /\ \A o \in Ords : WF_vars(Scramble(o))
            /\ WF_vars(Reconcile(<<>>)) /\ WF_vars(SyncSetCache) /\ WF_vars(SyncPodCache) /\ WF_vars(SyncPvcCache) /\ WF_vars(Unpause)
            /\ \A o \in Ords : WF_vars(PodRunning(o)) /\ WF_vars(PodReady(o)) /\ WF_vars(FinishTerminating(o)) /\ WF_vars(GCOrphanPod(o))
            /\ \A k \in 1..4 : WF_vars(GCOrphanRev(k))
Spec == Init /\ [][Next]_vars /\ Fairness
\* the excluded case: a pod that can never become Ready and that the controller is not obliged to replace
Stuck == \E o \in Ords : <>[](api.pods[o].present /\ api.pods[o].phase = "Failed" /\ o \notin DesiredOf(Here) /\ api.set.policy = "OrderedReady")
Converges == <>[]Converged \/ Stuck

\* C16 end to end: with reconciles driven by the work queue alone the system still converges (Converges), and the queue
\* drains - no wake-up is lost and none is manufactured for ever
QueueDrains == <>[](~cache.queued)

\* C06 (history): a pod the controller creates finds its claim in place (created before it), claims are created once
\* and never removed - so an ordinal that is scaled in and later scaled out again gets the claims it left behind
ClaimsKeptStep(s, t)  == s.api.pvcs \subseteq t.api.pvcs
ClaimsFirstStep(s, t) == s.cache.set.nclaims = 1 =>
   \A o \in Ords : (t.api.pods[o].present /\ (~s.api.pods[o].present \/ s.api.pods[o].uid # t.api.pods[o].uid)) => ClaimOf(o) \in t.api.pvcs
ClaimsKept  == [][ClaimsKeptStep(Here, [api |-> api', cache |-> cache'])]_vars
ClaimsFirst == [][last'.act = "Reconcile" => ClaimsFirstStep(Here, [api |-> api', cache |-> cache'])]_vars
\* the claims that exist are claims of this set's ordinals, and a cache never shows a claim the API does not have
ClaimsSane  == api.pvcs \subseteq {ClaimOf(o) : o \in Ords} /\ cache.pvcs \subseteq api.pvcs /\ (api.set.nclaims = 0 => api.pvcs = {})

\* C18: after a migration no reconcile adds a revision (the update revision resolves to the built-in one) or takes a pod
\* of the old set away unless the rollout the built-in controller had begun calls for it; everything ends up adopted
NoNewRevisionStep(s, t) == Len(t.api.revs) <= Len(s.api.revs)
PodKeptStep(s, t) == \A o \in Ords :
   (s.api.pods[o].present /\ ~s.api.pods[o].term /\ s.api.pods[o].phase \notin {"Failed", "Succeeded"}
      /\ o \in DesiredOf(s) /\ o \in Desired(s.cache.set.replicas, s.cache.set.slots)
      /\ s.cache.pods[o] = s.api.pods[o] /\ s.cache.set.tmpl = s.api.set.tmpl
      /\ TmplOfRevS(s, s.api.pods[o].rev) = s.api.set.tmpl)
      => (t.api.pods[o].present /\ ~t.api.pods[o].term /\ t.api.pods[o].uid = s.api.pods[o].uid)
MigrationSafe == [][ last'.act = "Reconcile" => (NoNewRevisionStep(Here, [api |-> api', cache |-> cache'])
                                                  /\ PodKeptStep(Here, [api |-> api', cache |-> cache'])) ]_vars
AllAdoptedS(s) == /\ \A k \in 1..Len(s.api.revs) : s.api.revs[k].owner = "self"
                  /\ \A o \in Ords : s.api.pods[o].present => s.api.pods[o].owner = "self"
MigrationCompletes == <>[](Converged /\ AllAdoptedS(Here)) \/ Stuck

View == <<api, cache, budget, lvl>>
=======================================================================================
