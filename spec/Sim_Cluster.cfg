CONSTANTS MaxOrd = 2
 MaxRep = 3
 Tmpls = {"t0", "t1", "t2"}
 Policies = {"OrderedReady", "Parallel"}
 Strats = {"RollingUpdate", "OnDelete"}
 Edits = 3
 Faults = 2
 Fails = 2
 MaxFaultPos = 5
 QueueDriven = FALSE
 ClaimCounts = {0}
 InitMode = "any"
 Depth = 24
INIT SimInit
NEXT SimNext
INVARIANT Emit
INVARIANT StatusTruth
INVARIANT QuietPods
CHECK_DEADLOCK FALSE
