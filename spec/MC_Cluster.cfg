CONSTANTS MaxOrd = 1
 MaxRep = 2
 Tmpls = {"t0", "t1"}
 Policies = {"OrderedReady", "Parallel"}
 Strats = {"RollingUpdate", "OnDelete"}
 Edits = 1
 Faults = 1
 Fails = 1
 MaxFaultPos = 3
 QueueDriven = FALSE
 ClaimCounts = {0}
 InitMode = "empty"
SPECIFICATION Spec
VIEW View
INVARIANT StatusTruth
INVARIANT QuietPods
INVARIANT ReconcileSafe
PROPERTY NoRestartOnScale
PROPERTY NoCollateralDelete
PROPERTY Converges
CHECK_DEADLOCK FALSE
