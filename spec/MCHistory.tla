--------------------------------- MODULE MCHistory ---------------------------------
(***************************************************************************************)
(* Design check on the history domain (C13, per-reconcile part of C08): populations of *)
(* up to four revisions (own, orphaned with the upgrade marker and therefore listed    *)
(* once or twice, foreign), any numbering (ascending, descending, ties), limits 0..2,  *)
(* a foreign squatter on the name the controller would pick, pods pinned to revisions. *)
(* Mirrors harness/domains2.go HistoryDomain.                                          *)
(***************************************************************************************)
EXTENDS Props
CONSTANTS NRevs,        \* revision slots 0..NRevs-1 (the harness domain uses 4)
          Numberings,   \* subset of {"asc", "desc", "ties"}
          PodVals,      \* subset of 0..8: 0 = no pod, 1..4 = healthy pod labelled t(k-1).0, 5..8 = the same but terminating
          Colls         \* collision counts recorded in the status
VARIABLES tmpl, cur, hl, numbering, coll, squat, revs, pods, lvl
vars == <<tmpl, cur, hl, numbering, coll, squat, revs, pods, lvl>>

Absent == [present |-> FALSE]
RevChoices == {Absent} \cup [present : {TRUE}, owner : {"self", "none", "other"}, labels : {"sel", "marker", "both"}]
TmplOf(k) == "t" \o ToString(k)
NumOf(k) == CASE numbering = "asc" -> k + 1 [] numbering = "desc" -> 4 - k [] OTHER -> 1 + (k \div 2)
MkRev(k, c) == [name |-> TmplOf(k) \o ".0", tmpl |-> TmplOf(k), num |-> NumOf(k), created |-> 100 * (k + 1), owner |-> c.owner,
                marker |-> c.labels \in {"marker", "both"}, sel |-> c.labels \in {"sel", "both"}, rank |-> k + 1]
PresentRevs == {k \in 0..(NRevs - 1) : revs[k].present}
NatSquat == tmpl \o "." \o ToString(coll)
SquatRev == IF squat /\ ~\E k \in PresentRevs : TmplOf(k) \o ".0" = NatSquat
            THEN {[name |-> NatSquat, tmpl |-> IF tmpl = "t0" THEN "t1" ELSE "t0", num |-> 9, created |-> 50, owner |-> "other",
                   marker |-> FALSE, sel |-> FALSE, rank |-> 9]}
            ELSE {}
RevSeq == SetToSortSeq({MkRev(k, revs[k]) : k \in PresentRevs} \cup SquatRev, LAMBDA a, b : a.rank < b.rank)
MkPod(o) == [new |-> FALSE, name |-> "foo-" \o ToString(o), ord |-> o, member |-> TRUE, match |-> TRUE, owner |-> "self", phase |-> "Running",
             ready |-> TRUE, term |-> pods[o] > 4, rev |-> TmplOf((pods[o] - 1) % 4) \o ".0", identOK |-> TRUE, storOK |-> TRUE, uidOK |-> TRUE]
PodSeq == SetToSortSeq({MkPod(o) : o \in {x \in 0..1 : pods[x] > 0}}, LAMBDA a, b : a.ord < b.ord)

SnOf ==
  [set |-> [name |-> "foo", cached |-> TRUE, replicas |-> 2, slots |-> {}, policy |-> "Parallel", strat |-> "OnDelete",
            ruBlock |-> FALSE, partPresent |-> FALSE, part |-> 0, tmpl |-> tmpl, paused |-> FALSE, deleting |-> FALSE,
            histLimit |-> hl, selectorOK |-> TRUE, gen |-> 2,
            status |-> [obsGen |-> 1, replicas |-> 0, ready |-> 0, current |-> 0, updated |-> 0, collisions |-> coll,
                        curRev |-> cur, updRev |-> "t2.0"], claims |-> <<>>],
   pods |-> PodSeq, revs |-> RevSeq, pvcs |-> {},
   fresh |-> [exists |-> TRUE, sameUid |-> TRUE, deleting |-> FALSE, rvSame |-> TRUE], cacheIntact |-> TRUE,
   apods |-> ApiFromCache(PodSeq), apvcs |-> {}, faults |-> <<>>]

Init == /\ tmpl \in {"t0", "t1", "t2", "t3"} /\ cur \in {"t0.0", "t1.0", "t2.0", "", "gone"} /\ hl \in 0..2
        /\ numbering \in Numberings /\ coll \in Colls /\ squat \in BOOLEAN
        /\ pods \in [0..1 -> PodVals]
        /\ revs = [k \in 0..(NRevs - 1) |-> Absent] /\ lvl = 0
Next == /\ lvl = 0 /\ lvl' = 1 /\ revs' \in [0..(NRevs - 1) -> RevChoices]
        /\ UNCHANGED <<tmpl, cur, hl, numbering, coll, squat, pods>>

M == Sync(SnOf)
I_C13 == C13(SnOf, M.calls, M.res)
I_C09 == C09(SnOf, M.calls, M.res)
I_C10 == C10(SnOf, M.calls, M.res)
I_C12 == C12(SnOf, M.calls)
I_C08 == C08(SnOf, M.calls, M.res)
=======================================================================================
