package main

// client.go (C19): the client-side helpers - annotation codecs on real objects (operation sequences enumerated), and
// the hijack client / conversions / defaulting on generated concrete objects (data fidelity, sampled).

import (
	"context"
	"encoding/json"
	"flag"
	"fmt"
	"math/rand"
	"os"
	"reflect"
	"sort"
	"sync"

	kubeapps "k8s.io/api/apps/v1"
	v1 "k8s.io/api/core/v1"
	apiequality "k8s.io/apimachinery/pkg/api/equality"
	"k8s.io/apimachinery/pkg/api/resource"
	metav1 "k8s.io/apimachinery/pkg/apis/meta/v1"
	"k8s.io/apimachinery/pkg/util/sets"

	apps "github.com/pingcap/advanced-statefulset/client/apis/apps/v1"
	"github.com/pingcap/advanced-statefulset/client/apis/apps/v1/helper"
)

type annObjSpec struct {
	Nil    bool
	Slots  *string // raw annotation, nil = absent
	Paused *string
	Other  []string
}

func (a annObjSpec) build() *metav1.ObjectMeta {
	o := &metav1.ObjectMeta{Name: "x"}
	if a.Nil {
		return o
	}
	o.Annotations = map[string]string{}
	if a.Slots != nil {
		o.Annotations[helper.DeleteSlotsAnn] = *a.Slots
	}
	if a.Paused != nil {
		o.Annotations[helper.PausedReconcileAnn] = *a.Paused
	}
	for _, k := range a.Other {
		o.Annotations[k] = "v-" + k
	}
	return o
}

func absAnn(o *metav1.ObjectMeta) map[string]interface{} {
	out := map[string]interface{}{"nilmap": o.Annotations == nil, "slotsKind": "absent", "slots": []int{}, "paused": "absent", "other": []string{}}
	if v, ok := o.Annotations[helper.DeleteSlotsAnn]; ok {
		var raw []int32
		if err := json.Unmarshal([]byte(v), &raw); err != nil {
			out["slotsKind"] = "malformed"
		} else {
			out["slotsKind"] = "set"
			seen := map[int]bool{}
			l := []int{}
			for _, x := range raw {
				if !seen[int(x)] {
					seen[int(x)] = true
					l = append(l, int(x))
				}
			}
			sort.Ints(l)
			out["slots"] = l
		}
	}
	if v, ok := o.Annotations[helper.PausedReconcileAnn]; ok {
		switch v {
		case "true", "false":
			out["paused"] = v
		default:
			out["paused"] = "junk"
		}
	}
	other := []string{}
	for _, k := range []string{"k1", "k2"} {
		if v, ok := o.Annotations[k]; ok {
			if v == "v-"+k {
				other = append(other, k)
			} else {
				other = append(other, k+"-CHANGED")
			}
		}
	}
	for k := range o.Annotations {
		if k != "k1" && k != "k2" && k != helper.DeleteSlotsAnn && k != helper.PausedReconcileAnn {
			other = append(other, "EXTRA-"+k)
		}
	}
	out["other"] = other
	return out
}

type annOp struct {
	Op     string
	NilArg bool
	Vals   []int
	Flag   bool
}

func runAnnSeq(init annObjSpec, ops []annOp) map[string]interface{} {
	o := init.build()
	steps := []map[string]interface{}{}
	for _, op := range ops {
		errs := ""
		func() {
			defer func() {
				if p := recover(); p != nil {
					errs = fmt.Sprint("panic: ", p)
				}
			}()
			var s sets.Int32
			if !op.NilArg {
				s = sets.NewInt32()
				for _, v := range op.Vals {
					s.Insert(int32(v))
				}
			}
			switch op.Op {
			case "SetSlots":
				if err := helper.SetDeleteSlots(o, s); err != nil {
					errs = err.Error()
				}
			case "AddSlots":
				if err := helper.AddDeleteSlots(o, s); err != nil {
					errs = err.Error()
				}
			case "SetPaused":
				helper.SetPausedReconcile(o, op.Flag)
			}
		}()
		vals := op.Vals
		if vals == nil {
			vals = []int{}
		}
		steps = append(steps, map[string]interface{}{"op": op.Op, "nilarg": op.NilArg, "vals": vals, "flag": op.Flag, "after": absAnn(o), "err": errs,
			"gotSlots": sortedInts(helper.GetDeleteSlots(o)), "gotPaused": helper.GetPausedReconcile(o)})
	}
	return map[string]interface{}{"kind": "ann", "init": absAnn(init.build()), "steps": steps}
}

const maxI32, minI32 = 2147483647, -2147483647

func annDomain() ([]annObjSpec, []annOp) {
	sp := func(s string) *string { return &s }
	var objs []annObjSpec
	slotVals := []*string{nil, sp("oops"), sp("[]"), sp("[0]"), sp("[3,0]"), sp("[-1,0,3]"), sp(fmt.Sprintf("[%d,%d]", maxI32, minI32)), sp("[0,0,3]")}
	pausedVals := []*string{nil, sp("true"), sp("false"), sp("yes")}
	others := [][]string{{}, {"k1"}, {"k2"}, {"k1", "k2"}}
	objs = append(objs, annObjSpec{Nil: true})
	for _, s := range slotVals {
		for _, p := range pausedVals {
			for _, o := range others {
				objs = append(objs, annObjSpec{Slots: s, Paused: p, Other: o})
			}
		}
	}
	var ops []annOp
	for _, name := range []string{"SetSlots", "AddSlots"} {
		ops = append(ops, annOp{Op: name, NilArg: true})
		for _, v := range [][]int{{}, {0}, {3}, {-1, 0}, {0, 3}, {maxI32}, {minI32, 3}} {
			ops = append(ops, annOp{Op: name, Vals: v})
		}
	}
	ops = append(ops, annOp{Op: "SetPaused", Flag: true}, annOp{Op: "SetPaused", Flag: false})
	return objs, ops
}

// ---------- data fidelity on generated objects ----------

func randSet(r *rand.Rand, id int) *kubeapps.StatefulSet {
	rep := int32(r.Intn(5))
	s := &kubeapps.StatefulSet{
		TypeMeta:   metav1.TypeMeta{Kind: "StatefulSet", APIVersion: "apps/v1"},
		ObjectMeta: metav1.ObjectMeta{Name: fmt.Sprintf("set-%d", id), Namespace: NS},
		Spec: kubeapps.StatefulSetSpec{ServiceName: "svc", Selector: &metav1.LabelSelector{MatchLabels: map[string]string{"app": "web"}},
			Template: randTemplate(r)},
	}
	if r.Intn(4) > 0 {
		s.Spec.Replicas = &rep
	}
	switch r.Intn(4) {
	case 0:
		s.Labels = map[string]string{}
	case 1:
		s.Labels = map[string]string{"a": "b"}
	}
	switch r.Intn(4) {
	case 0:
		s.Annotations = map[string]string{}
	case 1:
		s.Annotations = map[string]string{helper.DeleteSlotsAnn: "[1]", "x": "y"}
	case 2:
		s.Annotations = map[string]string{helper.PausedReconcileAnn: "true"}
	}
	if r.Intn(3) == 0 {
		s.Finalizers = []string{"example.com/f"}
	}
	if r.Intn(3) == 0 {
		s.Spec.Selector.MatchExpressions = []metav1.LabelSelectorRequirement{{Key: "tier", Operator: metav1.LabelSelectorOpIn, Values: []string{"a", "b"}}}
	}
	switch r.Intn(4) {
	case 0:
		s.Spec.PodManagementPolicy = kubeapps.ParallelPodManagement
	case 1:
		s.Spec.PodManagementPolicy = kubeapps.OrderedReadyPodManagement
	}
	switch r.Intn(5) {
	case 0:
		s.Spec.UpdateStrategy.Type = kubeapps.OnDeleteStatefulSetStrategyType
	case 1:
		s.Spec.UpdateStrategy.Type = kubeapps.RollingUpdateStatefulSetStrategyType
	case 2:
		s.Spec.UpdateStrategy = kubeapps.StatefulSetUpdateStrategy{Type: kubeapps.RollingUpdateStatefulSetStrategyType, RollingUpdate: &kubeapps.RollingUpdateStatefulSetStrategy{Partition: i32(int32(r.Intn(4)))}}
	case 3:
		s.Spec.UpdateStrategy = kubeapps.StatefulSetUpdateStrategy{Type: kubeapps.RollingUpdateStatefulSetStrategyType, RollingUpdate: &kubeapps.RollingUpdateStatefulSetStrategy{}}
	}
	if r.Intn(2) == 0 {
		s.Spec.RevisionHistoryLimit = i32(int32(r.Intn(12)))
	}
	// (fields the Advanced StatefulSet API does not model - minReadySeconds, availableReplicas, the claim retention policy,
	// ordinals - are left unset: C19 speaks about the modelled schema)
	for i := 0; i < r.Intn(3); i++ {
		c := v1.PersistentVolumeClaim{ObjectMeta: metav1.ObjectMeta{Name: fmt.Sprintf("data%d", i)},
			Spec: v1.PersistentVolumeClaimSpec{AccessModes: []v1.PersistentVolumeAccessMode{v1.ReadWriteOnce},
				Resources: v1.ResourceRequirements{Requests: v1.ResourceList{v1.ResourceStorage: resource.MustParse(fmt.Sprintf("%dGi", 1+r.Intn(100)))}}}}
		if r.Intn(2) == 0 {
			sc := "fast"
			c.Spec.StorageClassName = &sc
		}
		if r.Intn(3) == 0 {
			c.Labels = map[string]string{"own": "l"}
		}
		s.Spec.VolumeClaimTemplates = append(s.Spec.VolumeClaimTemplates, c)
	}
	if r.Intn(2) == 0 {
		s.Status = kubeapps.StatefulSetStatus{ObservedGeneration: int64(r.Intn(9)), Replicas: int32(r.Intn(5)), ReadyReplicas: int32(r.Intn(5)), CurrentReplicas: int32(r.Intn(5)),
			UpdatedReplicas: int32(r.Intn(5)), CurrentRevision: "set-abc", UpdateRevision: "set-def"}
		if r.Intn(2) == 0 {
			s.Status.CollisionCount = i32(int32(r.Intn(3)))
		}
		if r.Intn(3) == 0 {
			s.Status.Conditions = []kubeapps.StatefulSetCondition{{Type: "Ready", Status: v1.ConditionTrue, LastTransitionTime: metav1.Unix(1700000000+int64(r.Intn(1000)), 0), Reason: "r", Message: "m"}}
		}
	}
	return s
}

func stripServer(s *kubeapps.StatefulSet) *kubeapps.StatefulSet {
	c := s.DeepCopy()
	c.ResourceVersion, c.UID, c.Generation = "", "", 0
	c.CreationTimestamp = metav1.Time{}
	return c
}

func (e *Env) dataCase(r *rand.Rand, id int) map[string]interface{} {
	e.Reset()
	checks := [][]interface{}{}
	add := func(name string, ok bool) { checks = append(checks, []interface{}{name, ok}) }
	eq := apiequality.Semantic.DeepEqual
	sts := randSet(r, id)
	// conversions
	a, err1 := helper.FromBuiltinStatefulSet(sts)
	add("from-builtin-no-error", err1 == nil)
	if err1 != nil {
		return map[string]interface{}{"kind": "data", "id": id, "checks": checks}
	}
	b, err2 := helper.ToBuiltinStatefulSet(a)
	add("to-builtin-no-error", err2 == nil)
	add("round-trip-equal", err2 == nil && eq(stripServer(b), stripServer(sts)))
	add("round-trip-apiVersion", err2 == nil && b.APIVersion == "apps/v1" && a.APIVersion == "apps.pingcap.com/v1")
	// defaulting is idempotent
	d1 := a.DeepCopy()
	apps.SetObjectDefaults_StatefulSet(d1)
	d2 := d1.DeepCopy()
	apps.SetObjectDefaults_StatefulSet(d2)
	add("defaulting-idempotent", eq(d1, d2))
	// hijack client: create, read back
	hc := helper.NewHijackClient(e.kc, e.pc).AppsV1().StatefulSets(NS)
	created, err := hc.Create(context.TODO(), sts.DeepCopy(), metav1.CreateOptions{})
	add("hijack-create-no-error", err == nil)
	if err != nil {
		return map[string]interface{}{"kind": "data", "id": id, "checks": checks, "err": err.Error()}
	}
	want, _ := helper.ToBuiltinStatefulSet(d1) // what was submitted, with client-side defaults
	want.Status = kubeapps.StatefulSetStatus{} // status is a subresource: a create does not set it
	got, err := hc.Get(context.TODO(), sts.Name, metav1.GetOptions{})
	add("hijack-get-no-error", err == nil)
	add("hijack-create-returns-stored", err == nil && eq(stripServer(created), stripServer(got)))
	add("hijack-read-back-equal", err == nil && eq(stripServer(got), stripServer(want)))
	add("hijack-read-back-apiVersion", err == nil && got.APIVersion == "apps/v1")
	// independent of the defaulting code: whatever the caller set explicitly comes back as it was set
	subm := sts.DeepCopy()
	subm.Status = kubeapps.StatefulSetStatus{}
	add("hijack-read-back-keeps-explicit-fields", err == nil && explicitKept(jsonTree(subm), jsonTree(stripServer(got)), ""))
	// status through the subresource
	withStatus := got.DeepCopy()
	withStatus.Status = sts.Status
	_, err = hc.UpdateStatus(context.TODO(), withStatus, metav1.UpdateOptions{})
	got2, err2b := hc.Get(context.TODO(), sts.Name, metav1.GetOptions{})
	add("hijack-status-round-trip", err == nil && err2b == nil && eq(got2.Status, sts.Status) && eq(got2.Spec, got.Spec))
	// re-submitting what was read back never alters the pod template (no rollout)
	before := e.apiSet(sts.Name).DeepCopy()
	_, err = hc.Update(context.TODO(), got2.DeepCopy(), metav1.UpdateOptions{})
	after := e.apiSet(sts.Name)
	add("hijack-resubmit-keeps-template", err == nil && eq(before.Spec.Template, after.Spec.Template) && eq(before.Spec, after.Spec) && before.Generation == after.Generation)
	// a write that meets a Conflict is all or nothing: either it is reported and nothing is stored, or everything the
	// caller submitted (metadata included: the slots of a scale-in travel in an annotation) is stored
	if cur, gerr := hc.Get(context.TODO(), sts.Name, metav1.GetOptions{}); gerr == nil {
		mod := cur.DeepCopy()
		if mod.Annotations == nil {
			mod.Annotations = map[string]string{}
		}
		mod.Annotations[helper.DeleteSlotsAnn] = "[1]"
		two := int32(2)
		mod.Spec.Replicas = &two
		beforeC := e.apiSet(sts.Name).DeepCopy()
		e.api.ResetLog()
		e.api.faults = []Fault{{K: 1, Kind: "Conflict"}}
		_, uerr := hc.Update(context.TODO(), mod, metav1.UpdateOptions{})
		e.api.faults = nil
		afterC := e.apiSet(sts.Name)
		okC := false
		if uerr != nil {
			okC = eq(beforeC.Spec, afterC.Spec) && eq(beforeC.Annotations, afterC.Annotations) && eq(beforeC.Labels, afterC.Labels)
		} else {
			okC = afterC.Annotations[helper.DeleteSlotsAnn] == "[1]" && afterC.Spec.Replicas != nil && *afterC.Spec.Replicas == 2
		}
		add("hijack-update-conflict-all-or-nothing", okC)
	}
	// lists keep length, order, type
	for k := 0; k < 2; k++ {
		o := randSet(r, id*10+k+1)
		o.Name = fmt.Sprintf("z-%d-%d", id, k)
		hc.Create(context.TODO(), o, metav1.CreateOptions{})
	}
	l, err := hc.List(context.TODO(), metav1.ListOptions{})
	okList := err == nil && len(l.Items) == 3 && l.APIVersion == "apps/v1"
	if okList {
		names := e.api.Names(RSet)
		for k := range l.Items {
			okList = okList && l.Items[k].Name == names[k] && (l.Items[k].APIVersion == "apps/v1" || l.Items[k].APIVersion == "")
		}
		for k := range l.Items {
			single, _ := hc.Get(context.TODO(), l.Items[k].Name, metav1.GetOptions{})
			okList = okList && single != nil && eq(stripTypeMeta(&l.Items[k]), stripTypeMeta(single))
		}
	}
	add("hijack-list", okList)
	return map[string]interface{}{"kind": "data", "id": id, "checks": checks}
}

func jsonTree(o interface{}) interface{} {
	b, _ := json.Marshal(o)
	var t interface{}
	json.Unmarshal(b, &t)
	return t
}

// explicitKept: every value present in want (what the caller submitted; empty collections, empty strings, zeros and nulls
// do not count as set) is present and equal in got (what was read back, which may carry defaults in addition).
func explicitKept(want, got interface{}, path string) bool {
	switch w := want.(type) {
	case nil:
		return true
	case map[string]interface{}:
		if len(w) == 0 {
			return true
		}
		g, ok := got.(map[string]interface{})
		if !ok {
			return false
		}
		for k, v := range w {
			if !explicitKept(v, g[k], path+"."+k) {
				return false
			}
		}
		return true
	case []interface{}:
		if len(w) == 0 {
			return true
		}
		g, ok := got.([]interface{})
		if !ok || len(g) != len(w) {
			return false
		}
		for i := range w {
			if !explicitKept(w[i], g[i], path) {
				return false
			}
		}
		return true
	case string:
		return w == "" || got == want
	case float64:
		return w == 0 || got == want
	case bool:
		return !w || got == want
	}
	return reflect.DeepEqual(want, got)
}

func stripTypeMeta(s *kubeapps.StatefulSet) *kubeapps.StatefulSet {
	c := s.DeepCopy()
	c.TypeMeta = metav1.TypeMeta{}
	return c
}

func cmdClient(args []string) {
	fs := flag.NewFlagSet("client", flag.ExitOnError)
	depth := fs.Int("depth", 2, "length of annotation operation sequences (all enumerated)")
	n := fs.Int("n", 300, "generated objects for the data checks")
	seed := fs.Int64("seed", 1, "")
	workers := fs.Int("workers", 8, "")
	out := fs.String("out", "", "")
	one := fs.String("case", "", "replay a data case: JSON {seed, id}")
	fs.Parse(args)
	os.MkdirAll(*out, 0o755)
	if *one != "" {
		var c struct {
			Seed int64
			ID   int
		}
		json.Unmarshal([]byte(*one), &c)
		sh := newShard(*out, 0)
		rec := NewEnv().dataCase(rand.New(rand.NewSource(c.Seed*100003+int64(c.ID))), c.ID)
		rec["seed"] = c.Seed
		sh.write(rec)
		sh.close()
		return
	}
	objs, ops := annDomain()
	var seqs [][]annOp
	var gen func(cur []annOp)
	gen = func(cur []annOp) {
		if len(cur) > 0 {
			seqs = append(seqs, append([]annOp{}, cur...))
		}
		if len(cur) == *depth {
			return
		}
		for _, o := range ops {
			gen(append(cur, o))
		}
	}
	gen(nil)
	var wg sync.WaitGroup
	total := 0
	var mu sync.Mutex
	for k := 0; k < *workers; k++ {
		wg.Add(1)
		go func(k int) {
			defer wg.Done()
			sh := newShard(*out, k)
			defer sh.close()
			cnt := 0
			for oi, o := range objs {
				for si, s := range seqs {
					if (oi*len(seqs)+si)%*workers != k {
						continue
					}
					sh.write(runAnnSeq(o, s))
					cnt++
				}
			}
			e := NewEnv()
			for i := k; i < *n; i += *workers {
				rec := e.dataCase(rand.New(rand.NewSource(*seed*100003+int64(i))), i)
				rec["seed"] = *seed
				sh.write(rec)
				cnt++
			}
			mu.Lock()
			total += cnt
			mu.Unlock()
		}(k)
	}
	wg.Wait()
	b, _ := json.Marshal(map[string]interface{}{"records": total, "annotation_objects": len(objs), "op_sequences": len(seqs), "generated_objects": *n,
		"domain": fmt.Sprintf("annotation objects x all op sequences up to %d (enumerated) + %d generated StatefulSets (seeded)", *depth, *n)})
	os.WriteFile(*out+"/meta.json", b, 0o644)
	fmt.Println(string(b))
}
