package main

// snap.go: load a scenario into the world, run ONE real reconcile, and produce the record
// (snapshot projection + ordered call log + result) that the TLA+ trace specs consume.

import (
	"bytes"
	"encoding/json"
	"fmt"
	"sort"
	"strings"

	kubeapps "k8s.io/api/apps/v1"
	v1 "k8s.io/api/core/v1"
	metav1 "k8s.io/apimachinery/pkg/apis/meta/v1"

	apiequality "k8s.io/apimachinery/pkg/api/equality"

	apps "github.com/pingcap/advanced-statefulset/client/apis/apps/v1"
	"github.com/pingcap/advanced-statefulset/pkg/controller/statefulset"
)

type Scenario struct {
	Set  SetSpec
	Pods []PodSpec
	Revs []RevSpec
	// claims present in the API and the claim cache: list of names
	PVCs []string
	// claims that exist in the API but have not reached the claim cache yet
	PVCsApiOnly []string
	// claims (of PVCs) that carry a deletion timestamp (deleted by hand while still in use, held by the protection finalizer)
	PVCsTerminating []string
	// what an uncached read of the set returns
	FreshAbsent, FreshOtherUID, FreshDeleting bool
	// set missing from the cache
	Uncached bool
	// pods (by ordinal) that the cache still shows although they are gone from the API / that were re-created since
	ApiGone, ApiReborn []int
	Dom                []int   // index of the scenario in its domain (for replay)
	Faults             []Fault // injected into the reconcile that follows Load
	// Raw, if set, rewrites the built set object (used to produce shapes only the CRD schema admits)
	Raw func(*apps.StatefulSet) *apps.StatefulSet
}

// Load resets the world and materialises the scenario: objects go to the API, caches are
// filled without firing handlers, then the "fresh" deviations are applied to the API only.
func (w *World) Load(sc *Scenario) {
	e := w.e
	e.Reset()
	set := sc.Set.Build()
	st := &set.Status
	st.ObservedGeneration = sc.Set.ObsGen
	st.Replicas, st.ReadyReplicas, st.CurrentReplicas, st.UpdatedReplicas = sc.Set.StReplicas, sc.Set.StReady, sc.Set.StCurrent, sc.Set.StUpdated
	st.CurrentRevision = w.realRevName(set.Name, sc.Set.CurRev)
	st.UpdateRevision = w.realRevName(set.Name, sc.Set.UpdRev)
	cc := sc.Set.Collisions
	st.CollisionCount = &cc
	if sc.Raw != nil {
		set = sc.Raw(set)
	}
	e.api.Put(RSet, set.DeepCopy())
	for _, r := range sc.Revs {
		e.api.Put(RRev, w.BuildRev(set.Name, r))
	}
	for _, p := range sc.Pods {
		e.api.Put(RPods, w.BuildPod(set, p, sc.Set.NClaims))
	}
	for _, n := range sc.PVCs {
		c := &v1.PersistentVolumeClaim{ObjectMeta: metav1.ObjectMeta{Name: n, Namespace: NS}}
		for _, t := range sc.PVCsTerminating {
			if t == n {
				now := metav1.Unix(950, 0)
				c.DeletionTimestamp = &now
				c.Finalizers = []string{"kubernetes.io/pvc-protection"}
			}
		}
		e.api.Put(RPVC, c)
	}
	e.CacheSyncAll(false)
	for _, n := range sc.PVCsApiOnly {
		e.api.Put(RPVC, &v1.PersistentVolumeClaim{ObjectMeta: metav1.ObjectMeta{Name: n, Namespace: NS}})
	}
	for _, o := range sc.ApiGone {
		e.api.Remove(RPods, fmt.Sprintf("%s-%d", set.Name, o))
	}
	for _, o := range sc.ApiReborn { // the same name, another incarnation (uid), not scheduled yet
		n := fmt.Sprintf("%s-%d", set.Name, o)
		if old := e.apiPod(n); old != nil {
			p := old.DeepCopy()
			e.api.Remove(RPods, n)
			p.UID, p.ResourceVersion = "", ""
			p.Spec.NodeName = ""
			p.Status = v1.PodStatus{Phase: v1.PodPending}
			p.DeletionTimestamp = nil
			e.api.Put(RPods, p)
		}
	}
	if sc.Uncached {
		e.setIdx.Replace(nil, "")
	}
	switch {
	case sc.FreshAbsent:
		e.api.Remove(RSet, set.Name)
	case sc.FreshOtherUID:
		f := e.apiSet(set.Name).DeepCopy()
		f.UID = "set-uid-recreated"
		e.api.Put(RSet, f)
	}
	if sc.FreshDeleting && !sc.FreshAbsent {
		f := e.apiSet(set.Name).DeepCopy()
		now := metav1.Unix(990, 0)
		f.DeletionTimestamp = &now
		e.api.Put(RSet, f)
	}
	e.api.ResetLog()
	e.api.faults = sc.Faults
}

// ---- call post-processing ----

func patchKind(p string) string {
	switch {
	case strings.Contains(p, `"$patch":"delete"`) && strings.Contains(p, `"ownerReferences"`):
		return "release"
	case strings.Contains(p, `"ownerReferences":[{`) && strings.Contains(p, `"controller":true`):
		return "adopt"
	}
	return "other"
}

// podIdentity evaluates, on the object the controller sent, every clause C06 states.
func (w *World) podIdentity(set *apps.StatefulSet, p *v1.Pod) (ord int, ok bool, why []string) {
	parent, ord := parentAndOrdinal(p.Name)
	chk := func(c bool, s string) {
		if !c {
			why = append(why, s)
		}
	}
	chk(parent == set.Name && p.Name == fmt.Sprintf("%s-%d", set.Name, ord), "name")
	chk(p.Namespace == set.Namespace || p.Namespace == "", "namespace")
	chk(p.Spec.Hostname == p.Name, "hostname")
	chk(p.Spec.Subdomain == set.Spec.ServiceName, "subdomain")
	chk(p.Labels[apps.StatefulSetPodNameLabel] == p.Name, "podname-label")
	chk(p.Labels[kubeapps.StatefulSetRevisionLabel] != "", "revision-label")
	ref := metav1.GetControllerOf(p)
	chk(ref != nil && ref.UID == set.UID && ref.Kind == "StatefulSet" && ref.Name == set.Name, "owner")
	vols := map[string]v1.Volume{}
	for _, v := range p.Spec.Volumes {
		vols[v.Name] = v
	}
	for _, c := range set.Spec.VolumeClaimTemplates {
		v, found := vols[c.Name]
		chk(found && v.PersistentVolumeClaim != nil && v.PersistentVolumeClaim.ClaimName == fmt.Sprintf("%s-%s-%d", c.Name, set.Name, ord), "volume-"+c.Name)
	}
	return ord, len(why) == 0, why
}

// podTemplateOK: the created pod carries the template of the revision it is labelled with.
func (w *World) podTemplateOK(set *apps.StatefulSet, p *v1.Pod) bool {
	label := p.Labels[kubeapps.StatefulSetRevisionLabel]
	r := w.e.apiRev(label)
	if r == nil {
		return false
	}
	tid := w.revTmpl(set.Name, r)
	if tid == "junk" {
		return false
	}
	want := baseTemplate(set.Name, tid, len(set.Spec.VolumeClaimTemplates))
	if len(p.Spec.Containers) != len(want.Spec.Containers) {
		return false
	}
	a, _ := json.Marshal(p.Spec.Containers)
	b, _ := json.Marshal(want.Spec.Containers)
	if !bytes.Equal(a, b) {
		return false
	}
	for k, v := range want.Labels {
		if p.Labels[k] != v {
			return false
		}
	}
	return true
}

// updDataOK: C08 on the real objects - the revision named as update revision is stored, and its recorded data,
// applied to the set, reproduces the set's current pod template exactly.
func (w *World) updDataOK(set *apps.StatefulSet, name string) string {
	r := w.e.apiRev(name)
	if r == nil || set == nil {
		return "upd-data-missing"
	}
	restored, err := statefulset.ApplyRevision(set, r)
	if err != nil {
		return "upd-data-unapplicable"
	}
	if !apiequality.Semantic.DeepEqual(restored.Spec.Template, set.Spec.Template) {
		return "upd-data-differs"
	}
	if ok, err := statefulset.Match(set, r); err != nil || !ok {
		return "upd-data-nomatch"
	}
	return "upd-data-ok"
}

func claimOK(set *apps.StatefulSet, c *v1.PersistentVolumeClaim) bool {
	if c.Namespace != set.Namespace {
		return false
	}
	if set.Spec.Selector != nil {
		for k, v := range set.Spec.Selector.MatchLabels {
			if c.Labels[k] != v {
				return false
			}
		}
	}
	// name must be <template>-<set>-<ordinal> for one of the templates
	for _, t := range set.Spec.VolumeClaimTemplates {
		pre := t.Name + "-" + set.Name + "-"
		if strings.HasPrefix(c.Name, pre) {
			if _, o := parentAndOrdinal(c.Name); o >= 0 {
				return true
			}
		}
	}
	return false
}

// PlanView turns the raw call log into the abstract call list: lists are dropped (they are
// implied), names of revisions are abstracted, details are classified, and the two places
// where the controller's call order is unspecified (cache iteration order while claiming
// pods, map iteration order over claim templates) are put into name order.
func (w *World) PlanView(set *apps.StatefulSet, pre map[string]*kubeapps.ControllerRevision) [][]interface{} {
	var cs []*Call
	setName := ""
	if set != nil {
		setName = set.Name
	}
	for _, c := range w.e.api.calls {
		if c.Verb == "list" {
			continue
		}
		d := &Call{old: c.old, PlanIdx: c.PlanIdx, Idx: c.Idx, Verb: c.Verb, Res: c.Res, Name: c.Name, Result: c.Result, Ints: []int{}, Strs: []string{}}
		switch {
		case c.Res == RPods && c.Verb == "create":
			if p, ok := c.obj.(*v1.Pod); ok && set != nil {
				ord, idok, why := w.podIdentity(set, p)
				d.Det = w.absRevName(setName, p.Labels[kubeapps.StatefulSetRevisionLabel])
				d.Ints = []int{ord, b2i(idok)}
				if w.podTemplateOK(set, p) {
					d.Strs = []string{"tmpl-ok"}
				} else {
					d.Strs = []string{"tmpl-bad"}
				}
				d.Strs = append(d.Strs, why...)
			} else {
				_, ord := parentAndOrdinal(c.Name)
				d.Ints = []int{ord, 0}
				d.Strs = []string{"tmpl-unknown"}
			}
		case c.Res == RPVC && c.Verb == "create":
			if pvc, ok := c.obj.(*v1.PersistentVolumeClaim); ok && set != nil && claimOK(set, pvc) {
				d.Strs = []string{"claim-ok"}
			} else {
				d.Strs = []string{"claim-bad"}
			}
		case c.Res == RSet+"/status" && c.Verb == "update":
			if s, ok := c.obj.(*apps.StatefulSet); ok {
				coll := 0
				if s.Status.CollisionCount != nil {
					coll = int(*s.Status.CollisionCount)
				}
				d.Ints = []int{int(s.Status.ObservedGeneration), int(s.Status.Replicas), int(s.Status.ReadyReplicas),
					int(s.Status.CurrentReplicas), int(s.Status.UpdatedReplicas), coll}
				d.Strs = []string{w.absRevName(setName, s.Status.CurrentRevision), w.absRevName(setName, s.Status.UpdateRevision), w.updDataOK(set, s.Status.UpdateRevision)}
			}
		case c.Verb == "patch":
			d.Det = patchKind(c.Det)
			if c.Res == RRev {
				d.Name = w.absRevName(setName, c.Name)
			}
		case c.Res == RRev && c.Verb == "update":
			d.Name = w.absRevName(setName, c.Name)
			if r, ok := c.obj.(*kubeapps.ControllerRevision); ok {
				old := pre[c.Name]
				if o, ok := c.old.(*kubeapps.ControllerRevision); ok {
					old = o
				}
				kinds := []string{}
				if old != nil && !mapsEqual(old.Labels, r.Labels) {
					kinds = append(kinds, "labels")
				}
				if old != nil && old.Revision != r.Revision {
					kinds = append(kinds, "renumber")
					d.Ints = []int{int(r.Revision)}
				}
				if old != nil && (!bytes.Equal(old.Data.Raw, r.Data.Raw) || len(old.OwnerReferences) != len(r.OwnerReferences)) {
					kinds = append(kinds, "other")
				}
				if len(kinds) == 0 {
					kinds = []string{"labels"} // a label sync that found the labels already in place
				}
				d.Det = strings.Join(kinds, "+")
			}
		case c.Res == RRev && c.Verb == "create":
			d.Name = w.absRevName(setName, c.Name)
			if r, ok := c.obj.(*kubeapps.ControllerRevision); ok {
				d.Det = w.revTmpl(setName, r)
				d.Ints = []int{int(r.Revision)}
			}
		case c.Res == RRev:
			d.Name = w.absRevName(setName, c.Name)
		}
		cs = append(cs, d)
	}
	// canonical order inside unordered segments
	isClaimSeg := func(c *Call) bool { return (c.Res == RSet && c.Verb == "get") || (c.Res == RPods && c.Verb == "patch") }
	isPVC := func(c *Call) bool { return c.Res == RPVC && c.Verb == "create" }
	rank := func(c *Call) string {
		switch {
		case c.Verb == "get":
			return "0"
		case c.Det == "release":
			return "1" + c.Name
		default:
			return "2" + c.Name
		}
	}
	for i := 0; i < len(cs); {
		j := i
		switch {
		case isClaimSeg(cs[i]):
			for j < len(cs) && isClaimSeg(cs[j]) {
				j++
			}
			seg := cs[i:j]
			sort.SliceStable(seg, func(a, b int) bool { return rank(seg[a]) < rank(seg[b]) })
		case isPVC(cs[i]):
			for j < len(cs) && isPVC(cs[j]) {
				j++
			}
			seg := cs[i:j]
			sort.SliceStable(seg, func(a, b int) bool { return seg[a].Name < seg[b].Name })
		default:
			j = i + 1
		}
		i = j
	}
	out := make([][]interface{}, 0, len(cs))
	w.canon = map[int]int{}
	for k, c := range cs {
		out = append(out, []interface{}{c.Verb, c.Res, c.Name, c.Det, c.Ints, c.Result, c.Strs})
		w.canon[c.PlanIdx] = k + 1
	}
	return out
}

func mapsEqual(a, b map[string]string) bool {
	if len(a) != len(b) {
		return false
	}
	for k, v := range a {
		if b[k] != v {
			return false
		}
	}
	return true
}

// RunOne loads the scenario, runs one reconcile and returns the record for the trace spec.
func (w *World) RunOne(sc *Scenario) map[string]interface{} {
	w.Load(sc)
	return w.Reconcile(sc.Set.Name)
}

// Reconcile records one reconcile of the set on the current world.
func (w *World) Reconcile(name string) map[string]interface{} {
	sn := w.Snapshot(name)
	cached := w.cachedSet(name)
	pre := map[string]*kubeapps.ControllerRevision{}
	for _, n := range w.e.api.Names(RRev) {
		pre[n] = w.e.apiRev(n).DeepCopy()
	}
	cs := w.e.snapCache()
	w.e.api.ResetLogKeepFaults()
	var res, det string
	if w.queueMode {
		res, det = w.e.ProcessOne(name)
	} else {
		res, det = w.e.Sync(name)
	}
	sn["cacheIntact"] = cs.intact()
	calls := w.PlanView(cached, pre)
	// fault positions are reported in the canonical call order (see PlanView)
	fl := [][]interface{}{}
	for _, f := range w.e.api.faults {
		k := f.K
		if c, ok := w.canon[k]; ok && k > 0 {
			k = c
		}
		fl = append(fl, []interface{}{k, f.Kind, f.Applied, f.Die, f.List, f.Evict})
	}
	sn["faults"] = fl
	rec := map[string]interface{}{"sn": sn, "calls": calls, "res": res}
	if det != "" {
		rec["detail"] = det
	}
	return rec
}
