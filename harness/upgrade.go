package main

// upgrade.go (C17): the real helper.Upgrade against MiniAPI under enumerated fault plans: every call position,
// every error kind, "applied but reported failed", process death before / after the call, singles and pairs,
// re-run with the caller's original object until it returns nil.

import (
	"context"
	"encoding/json"
	"flag"
	"fmt"
	"os"
	"strings"
	"sync"

	kubeapps "k8s.io/api/apps/v1"
	v1 "k8s.io/api/core/v1"
	apiequality "k8s.io/apimachinery/pkg/api/equality"
	metav1 "k8s.io/apimachinery/pkg/apis/meta/v1"
	"k8s.io/apimachinery/pkg/labels"

	apps "github.com/pingcap/advanced-statefulset/client/apis/apps/v1"
	"github.com/pingcap/advanced-statefulset/client/apis/apps/v1/helper"
)

type upScenario struct {
	NRevs     int
	Relabeled int // bit mask: revisions an earlier, interrupted run already relabelled
	Pre       int // 0 none, 1 advanced set exists with other spec and status, 2 exists with the right spec and no status
	Faults    []Fault
}

func upSts() *kubeapps.StatefulSet {
	r := int32(2)
	return &kubeapps.StatefulSet{
		TypeMeta:   metav1.TypeMeta{Kind: "StatefulSet", APIVersion: "apps/v1"},
		ObjectMeta: metav1.ObjectMeta{Name: "web", Namespace: NS, UID: "builtin-uid", Generation: 3, Labels: map[string]string{"team": "x"}},
		Spec: kubeapps.StatefulSetSpec{Replicas: &r, ServiceName: "svc",
			Selector: &metav1.LabelSelector{MatchLabels: map[string]string{"app": "web"}},
			Template: v1.PodTemplateSpec{ObjectMeta: metav1.ObjectMeta{Labels: map[string]string{"app": "web"}},
				Spec: v1.PodSpec{Containers: []v1.Container{{Name: "c", Image: "img"}}}}},
		Status: kubeapps.StatefulSetStatus{ObservedGeneration: 3, Replicas: 2, ReadyReplicas: 2, CurrentReplicas: 2, UpdatedReplicas: 2,
			CurrentRevision: "web-r1", UpdateRevision: "web-r1"},
	}
}

type upState struct {
	Sts  bool          `json:"sts"`
	Asts []interface{} `json:"asts"` // [exists, spec, status]
	Revs [][]bool      `json:"revs"` // [sel, marker] per revision
}

func (e *Env) upStateOf(sts0 *kubeapps.StatefulSet, n int) upState {
	st := upState{Sts: e.api.Get(RSts, "web") != nil, Asts: []interface{}{false, "x", "none"}, Revs: [][]bool{}}
	if a := e.apiSet("web"); a != nil {
		want, _ := helper.FromBuiltinStatefulSet(sts0)
		spec, status := "x", "x"
		if apiequality.Semantic.DeepEqual(a.Spec, want.Spec) {
			spec = "S"
		}
		if apiequality.Semantic.DeepEqual(a.Status, want.Status) {
			status = "T"
		} else if apiequality.Semantic.DeepEqual(a.Status, apps.StatefulSetStatus{}) {
			status = "none"
		}
		st.Asts = []interface{}{true, spec, status}
	}
	sel := labels.SelectorFromSet(sts0.Spec.Selector.MatchLabels)
	for i := 1; i <= n; i++ {
		r := e.apiRev(fmt.Sprintf("web-r%d", i))
		if r == nil {
			st.Revs = append(st.Revs, []bool{false, false})
			continue
		}
		st.Revs = append(st.Revs, []bool{sel.Matches(labels.Set(r.Labels)), r.Labels[helper.UpgradeToAdvancedStatefulSetAnn] == "web"})
	}
	return st
}

func (e *Env) runUpgrade(sc upScenario) map[string]interface{} {
	e.Reset()
	e.api.countAll = true
	defer func() { e.api.countAll = false }()
	sts0 := upSts()
	e.api.Put(RSts, sts0.DeepCopy())
	for i := 1; i <= sc.NRevs; i++ {
		r := &kubeapps.ControllerRevision{ObjectMeta: metav1.ObjectMeta{Name: fmt.Sprintf("web-r%d", i), Namespace: NS,
			Labels: map[string]string{"app": "web", "controller.kubernetes.io/hash": fmt.Sprint(i)}}, Revision: int64(i)}
		if sc.Relabeled&(1<<(i-1)) != 0 {
			delete(r.Labels, "app")
			r.Labels[helper.UpgradeToAdvancedStatefulSetAnn] = "web"
		}
		e.api.Put(RRev, r)
	}
	for i := 0; i < 2; i++ {
		e.api.Put(RPods, &v1.Pod{ObjectMeta: metav1.ObjectMeta{Name: fmt.Sprintf("web-%d", i), Namespace: NS, Labels: map[string]string{"app": "web"}}})
		e.api.Put(RPVC, &v1.PersistentVolumeClaim{ObjectMeta: metav1.ObjectMeta{Name: fmt.Sprintf("data-web-%d", i), Namespace: NS}})
	}
	switch sc.Pre {
	case 1:
		a, _ := helper.FromBuiltinStatefulSet(sts0)
		a.ResourceVersion, a.UID = "", ""
		a.Spec.ServiceName = "other-svc"
		a.Status = apps.StatefulSetStatus{Replicas: 7}
		e.api.Put(RSet, a)
	case 2:
		a, _ := helper.FromBuiltinStatefulSet(sts0)
		a.ResourceVersion, a.UID = "", ""
		a.Status = apps.StatefulSetStatus{}
		e.api.Put(RSet, a)
	}
	state0 := e.upStateOf(sts0, sc.NRevs)
	e.api.ResetLog()
	e.api.faults = sc.Faults
	atDelete := []upState{}
	e.api.before = func(k int, verb, res, name string) {
		if verb == "delete" && res == "apps.statefulsets" {
			atDelete = append(atDelete, e.upStateOf(sts0, sc.NRevs))
		}
	}
	runs := []map[string]interface{}{}
	finished := false
	for r := 0; r < 6 && !finished; r++ {
		from := len(e.api.calls)
		res := func() (res string) {
			defer func() {
				if p := recover(); p != nil {
					if _, ok := p.(crashSentinel); ok {
						res = "died"
						return
					}
					res = "panic"
				}
			}()
			if _, err := helper.Upgrade(context.TODO(), e.kc, e.pc, sts0.DeepCopy()); err != nil {
				return "err"
			}
			return "ok"
		}()
		calls := [][]interface{}{}
		for _, c := range e.api.calls[from:] {
			name, det := 0, ""
			if strings.HasPrefix(c.Name, "web-r") {
				fmt.Sscanf(c.Name, "web-r%d", &name)
			}
			switch {
			case c.Res == RRev && c.Verb == "update":
				det = "other"
				if o, ok := c.obj.(*kubeapps.ControllerRevision); ok {
					if _, has := o.Labels["app"]; !has && o.Labels[helper.UpgradeToAdvancedStatefulSetAnn] == "web" {
						det = "relabel"
					}
				}
			case c.Res == RSet && c.Verb == "update":
				det = "spec"
			case c.Verb == "delete":
				det = c.Det
			}
			calls = append(calls, []interface{}{c.Verb, c.Res, name, det, c.Result})
		}
		runs = append(runs, map[string]interface{}{"calls": calls, "res": res})
		finished = res == "ok"
	}
	podWrites := 0
	for _, c := range e.api.calls {
		if (c.Res == RPods || c.Res == RPVC) && c.Verb != "get" && c.Verb != "list" {
			podWrites++
		}
	}
	fl := [][]interface{}{}
	for _, f := range sc.Faults {
		fl = append(fl, []interface{}{f.K, f.Kind, f.Applied, f.Die})
	}
	return map[string]interface{}{"nrevs": sc.NRevs, "relabeled": sc.Relabeled, "pre": sc.Pre, "faults": fl, "state0": state0, "runs": runs,
		"atDelete": atDelete, "final": e.upStateOf(sts0, sc.NRevs), "finished": finished, "podWrites": podWrites,
		"podsLeft": len(e.api.Names(RPods)), "claimsLeft": len(e.api.Names(RPVC))}
}

var upKinds = []Fault{{Kind: "ServerError"}, {Kind: "Conflict"}, {Kind: "NotFound"}, {Kind: "AlreadyExists"}, {Kind: "Timeout"},
	{Kind: "Timeout", Applied: true}, {Kind: "Die", Die: true}, {Kind: "Die", Die: true, Applied: true}}

func cmdUpgrade(args []string) {
	fs := flag.NewFlagSet("upgrade", flag.ExitOnError)
	maxRevs := fs.Int("maxrevs", 2, "")
	pairs := fs.Bool("pairs", false, "")
	workers := fs.Int("workers", 16, "")
	out := fs.String("out", "", "")
	one := fs.String("scenario", "", "replay one scenario (JSON)")
	fs.Parse(args)
	os.MkdirAll(*out, 0o755)
	if *one != "" {
		var sc upScenario
		if err := json.Unmarshal([]byte(*one), &sc); err != nil {
			fatal("%v", err)
		}
		sh := newShard(*out, 0)
		sh.write(NewEnv().runUpgrade(sc))
		sh.close()
		return
	}
	var scs []upScenario
	for n := 0; n <= *maxRevs; n++ {
		for mask := 0; mask < 1<<n; mask++ {
			for pre := 0; pre < 3; pre++ {
				base := upScenario{NRevs: n, Relabeled: mask, Pre: pre}
				scs = append(scs, base)
				maxPos := 1 + n + 4 + 2 // calls of an uninterrupted run, plus slack for re-runs
				for p := 1; p <= maxPos; p++ {
					for _, k := range upKinds {
						f := k
						f.K = p
						s1 := base
						s1.Faults = []Fault{f}
						scs = append(scs, s1)
						if *pairs {
							for q := p + 1; q <= maxPos+5; q++ {
								for _, k2 := range upKinds {
									g := k2
									g.K = q
									s2 := base
									s2.Faults = []Fault{f, g}
									scs = append(scs, s2)
								}
							}
						}
					}
				}
			}
		}
	}
	var wg sync.WaitGroup
	for k := 0; k < *workers; k++ {
		wg.Add(1)
		go func(k int) {
			defer wg.Done()
			e := NewEnv()
			sh := newShard(*out, k)
			defer sh.close()
			for i := k; i < len(scs); i += *workers {
				sh.write(e.runUpgrade(scs[i]))
			}
		}(k)
	}
	wg.Wait()
	b, _ := json.Marshal(map[string]interface{}{"records": len(scs), "exhaustive": true,
		"domain": fmt.Sprintf("upgrade: 0..%d revisions x earlier partial relabelling x 3 pre-existing states x every call position x 8 fault kinds (pairs=%v)", *maxRevs, *pairs)})
	os.WriteFile(*out+"/meta.json", b, 0o644)
	fmt.Println(string(b))
}
