package main

// Env: the real controller wired to MiniAPI, with informer caches that the harness
// fills explicitly (CacheSync actions) and with the registered event handlers captured.

import (
	"flag"
	"fmt"
	"io"
	"reflect"
	"sort"
	"sync"
	"time"

	kubeapps "k8s.io/api/apps/v1"
	v1 "k8s.io/api/core/v1"
	"k8s.io/apimachinery/pkg/runtime"
	kubeinformers "k8s.io/client-go/informers"
	coreinformers "k8s.io/client-go/informers/core/v1"
	kubefake "k8s.io/client-go/kubernetes/fake"
	"k8s.io/client-go/tools/cache"
	"k8s.io/klog/v2"

	apps "github.com/pingcap/advanced-statefulset/client/apis/apps/v1"
	pcfake "github.com/pingcap/advanced-statefulset/client/client/clientset/versioned/fake"
	pcinformers "github.com/pingcap/advanced-statefulset/client/client/informers/externalversions"
	pcappsinformers "github.com/pingcap/advanced-statefulset/client/client/informers/externalversions/apps/v1"
	"github.com/pingcap/advanced-statefulset/pkg/controller/statefulset"
)

const NS = "default"

// capInformer records the handlers the controller registers.
type capInformer struct {
	cache.SharedIndexInformer
	handlers []cache.ResourceEventHandler
}

func (c *capInformer) AddEventHandler(h cache.ResourceEventHandler) (cache.ResourceEventHandlerRegistration, error) {
	c.handlers = append(c.handlers, h)
	return nil, nil
}

type podInformer struct {
	coreinformers.PodInformer
	inf *capInformer
}

func (p podInformer) Informer() cache.SharedIndexInformer { return p.inf }

type setInformer struct {
	pcappsinformers.StatefulSetInformer
	inf *capInformer
}

func (p setInformer) Informer() cache.SharedIndexInformer { return p.inf }

type Env struct {
	api    *API
	kc     *kubefake.Clientset
	pc     *pcfake.Clientset
	ssc    *statefulset.StatefulSetController
	podInf *capInformer
	setInf *capInformer
	podIdx cache.Indexer
	setIdx cache.Indexer
	pvcIdx cache.Indexer
	cursor map[string]int // how far the watch stream of each resource has been delivered to the cache
}

var klogOnce sync.Once

func silenceKlog() {
	klogOnce.Do(func() {
		fs := flag.NewFlagSet("klog", flag.ContinueOnError)
		klog.InitFlags(fs)
		fs.Set("logtostderr", "false")
		fs.Set("alsologtostderr", "false")
		fs.Set("stderrthreshold", "FATAL")
		klog.SetOutput(io.Discard)
	})
}

func NewEnv() *Env {
	silenceKlog()
	api := NewAPI()
	pc := pcfake.NewSimpleClientset()
	kc := kubefake.NewSimpleClientset()
	pc.PrependReactor("*", "*", api.React)
	kc.PrependReactor("*", "*", api.React)
	pc.PrependWatchReactor("*", api.WatchReact)
	kc.PrependWatchReactor("*", api.WatchReact)
	pf := pcinformers.NewSharedInformerFactory(pc, 0)
	kf := kubeinformers.NewSharedInformerFactory(kc, 0)
	pi := podInformer{kf.Core().V1().Pods(), &capInformer{SharedIndexInformer: kf.Core().V1().Pods().Informer()}}
	si := setInformer{pf.Apps().V1().StatefulSets(), &capInformer{SharedIndexInformer: pf.Apps().V1().StatefulSets().Informer()}}
	e := &Env{api: api, kc: kc, pc: pc, podInf: pi.inf, setInf: si.inf, cursor: map[string]int{}}
	e.ssc = statefulset.NewStatefulSetController(pi, si, kf.Core().V1().PersistentVolumeClaims(), kf.Apps().V1().ControllerRevisions(), kc, pc)
	e.podIdx = pi.inf.GetIndexer()
	e.setIdx = si.inf.GetIndexer()
	e.pvcIdx = kf.Core().V1().PersistentVolumeClaims().Informer().GetIndexer()
	api.onEvict = func(what, name string) {
		switch what {
		case "set":
			for _, o := range e.setIdx.List() {
				e.setIdx.Delete(o)
			}
		case "pod":
			if o, ok, _ := e.podIdx.GetByKey(NS + "/" + name); ok {
				e.podIdx.Delete(o)
			}
		}
	}
	return e
}

// Reset empties the API, the caches and the work queue.
func (e *Env) Reset() {
	e.api.Reset()
	e.podIdx.Replace(nil, "")
	e.setIdx.Replace(nil, "")
	e.pvcIdx.Replace(nil, "")
	e.cursor = map[string]int{}
	e.DrainQueue()
	// the fake clientsets keep every action they were ever asked to perform: millions of scenarios later that is tens of GB
	e.kc.ClearActions()
	e.pc.ClearActions()
}

func (e *Env) DrainQueue() []string {
	q := e.ssc.VerifQueue()
	var keys []string
	for q.Len() > 0 {
		k, _ := q.Get()
		keys = append(keys, k.(string))
		q.Forget(k)
		q.Done(k)
	}
	sort.Strings(keys)
	return keys
}

// Sync runs one real reconcile of the set, recovering panics and injected process deaths.
func (e *Env) Sync(name string) (res string, detail string) {
	defer func() {
		if r := recover(); r != nil {
			if _, ok := r.(crashSentinel); ok {
				res, detail = "died", ""
				return
			}
			res, detail = "panic", fmt.Sprint(r)
		}
	}()
	if err := e.ssc.VerifSync(NS + "/" + name); err != nil {
		return "err", err.Error()
	}
	return "ok", ""
}

// ProcessOne lets the real worker function take one item from the work queue (which must hold the set's key) and
// reconcile it; whether the reconcile failed is read off the rate limiter's failure count, as the worker's only
// observable reaction to an error is AddRateLimited (and Forget on success).
func (e *Env) ProcessOne(name string) (res string, detail string) {
	q := e.ssc.VerifQueue()
	key := NS + "/" + name
	before := q.NumRequeues(key)
	defer func() {
		if r := recover(); r != nil {
			if _, ok := r.(crashSentinel); ok {
				res, detail = "died", ""
				return
			}
			res, detail = "panic", fmt.Sprint(r)
		}
	}()
	e.ssc.VerifProcessNextWorkItem()
	if after := q.NumRequeues(key); after > before {
		return "err", "requeued"
	} else if after != 0 {
		return "err", "neither forgotten nor requeued"
	}
	return "ok", ""
}

// WaitQueued waits for a rate-limited re-add that is under way to arrive in the queue.
func (e *Env) WaitQueued(max time.Duration) bool {
	q := e.ssc.VerifQueue()
	dl := time.Now().Add(max)
	for q.Len() == 0 {
		if time.Now().After(dl) {
			return false
		}
		time.Sleep(200 * time.Microsecond)
	}
	return true
}

// ---- caches ----

func idxFor(e *Env, res string) cache.Indexer {
	switch res {
	case RPods:
		return e.podIdx
	case RSet:
		return e.setIdx
	case RPVC:
		return e.pvcIdx
	}
	return nil
}

// CacheSync brings the informer cache of one resource up to date with the API and fires
// the handlers the controller registered, as a shared informer would.
func (e *Env) CacheSync(res string, fire bool) {
	idx := idxFor(e, res)
	var inf *capInformer
	switch res {
	case RPods:
		inf = e.podInf
	case RSet:
		inf = e.setInf
	}
	if fire && e.api.logEvents {
		// deliver the watch stream: every version of every object, in order - an informer never skips one
		for _, ev := range e.api.evlog[res][e.cursor[res]:] {
			old, exists, _ := idx.GetByKey(NS + "/" + ev.Name)
			switch {
			case ev.Obj == nil && exists:
				idx.Delete(old)
				if inf != nil {
					for _, h := range inf.handlers {
						h.OnDelete(old)
					}
				}
			case ev.Obj != nil && exists:
				c := ev.Obj.DeepCopyObject()
				idx.Update(c)
				if inf != nil {
					for _, h := range inf.handlers {
						h.OnUpdate(old, c)
					}
				}
			case ev.Obj != nil:
				c := ev.Obj.DeepCopyObject()
				idx.Add(c)
				if inf != nil {
					for _, h := range inf.handlers {
						h.OnAdd(c, false)
					}
				}
			}
		}
		e.cursor[res] = len(e.api.evlog[res])
		return
	}
	defer func() { e.cursor[res] = len(e.api.evlog[res]) }() // a jump to the latest state consumes the stream
	seen := map[string]bool{}
	for _, n := range e.api.Names(res) {
		o := e.api.Get(res, n)
		seen[n] = true
		old, exists, _ := idx.GetByKey(NS + "/" + n)
		if !exists {
			c := o.DeepCopyObject()
			idx.Add(c)
			if fire && inf != nil {
				for _, h := range inf.handlers {
					h.OnAdd(c, false)
				}
			}
		} else if meta(old.(runtime.Object)).GetResourceVersion() != meta(o).GetResourceVersion() {
			c := o.DeepCopyObject()
			idx.Update(c)
			if fire && inf != nil {
				for _, h := range inf.handlers {
					h.OnUpdate(old, c)
				}
			}
		}
	}
	for _, k := range idx.ListKeys() {
		n := k[len(NS)+1:]
		if !seen[n] {
			old, _, _ := idx.GetByKey(k)
			idx.Delete(old)
			if fire && inf != nil {
				for _, h := range inf.handlers {
					h.OnDelete(old)
				}
			}
		}
	}
}

func (e *Env) CacheSyncAll(fire bool) {
	e.CacheSync(RSet, fire)
	e.CacheSync(RPods, fire)
	e.CacheSync(RPVC, fire)
}

// cacheFingerprint captures cached objects so that mutation of shared cache objects by a
// reconcile can be detected (C10: objects read from caches are left unmodified).
type cacheSnap struct {
	objs map[string]runtime.Object
	ptrs map[string]runtime.Object
}

func (e *Env) snapCache() cacheSnap {
	cs := cacheSnap{map[string]runtime.Object{}, map[string]runtime.Object{}}
	for _, res := range []string{RPods, RSet, RPVC} {
		for _, o := range idxFor(e, res).List() {
			k := res + "/" + meta(o.(runtime.Object)).GetName()
			cs.ptrs[k] = o.(runtime.Object)
			cs.objs[k] = o.(runtime.Object).DeepCopyObject()
		}
	}
	return cs
}

func (cs cacheSnap) intact() bool {
	for k, p := range cs.ptrs {
		if !reflect.DeepEqual(p, cs.objs[k]) {
			return false
		}
	}
	return true
}

// typed accessors
func (e *Env) apiPod(name string) *v1.Pod {
	if o := e.api.Get(RPods, name); o != nil {
		return o.(*v1.Pod)
	}
	return nil
}
func (e *Env) apiSet(name string) *apps.StatefulSet {
	if o := e.api.Get(RSet, name); o != nil {
		return o.(*apps.StatefulSet)
	}
	return nil
}
func (e *Env) apiRev(name string) *kubeapps.ControllerRevision {
	if o := e.api.Get(RRev, name); o != nil {
		return o.(*kubeapps.ControllerRevision)
	}
	return nil
}
