package main

// MiniAPI: a small in-memory imitation of the Kubernetes API server, installed as the
// first reactor of the generated fake clientsets. It implements the semantics the
// controller depends on (resourceVersion conflicts, AlreadyExists / NotFound, label
// selector lists, strategic merge patches, graceful pod deletion, status subresource
// separation) and keeps an ordered log of every call with its result. It can inject a
// failure or a process death at any call index, and run a callback before any call so
// that other actors (kubelet, user, informers) can be interleaved with a reconcile.

import (
	"encoding/json"
	"fmt"
	"sort"
	"strings"

	kubeapps "k8s.io/api/apps/v1"
	v1 "k8s.io/api/core/v1"
	apiequality "k8s.io/apimachinery/pkg/api/equality"
	apierrors "k8s.io/apimachinery/pkg/api/errors"
	metav1 "k8s.io/apimachinery/pkg/apis/meta/v1"
	"k8s.io/apimachinery/pkg/labels"
	"k8s.io/apimachinery/pkg/runtime"
	"k8s.io/apimachinery/pkg/runtime/schema"
	"k8s.io/apimachinery/pkg/types"
	"k8s.io/apimachinery/pkg/util/strategicpatch"
	"k8s.io/apimachinery/pkg/watch"
	core "k8s.io/client-go/testing"

	apps "github.com/pingcap/advanced-statefulset/client/apis/apps/v1"
)

// resource keys
const (
	RPods = "pods"
	RPVC  = "persistentvolumeclaims"
	RRev  = "controllerrevisions"
	RSet  = "statefulsets" // advanced statefulsets (apps.pingcap.com)
	RSts  = "sts"          // built-in statefulsets (apps)
)

// Call is one API request as seen by the server.
type Call struct {
	Idx     int      `json:"idx"`
	PlanIdx int      `json:"-"` // position among the plan calls (0 for lists)
	Verb    string   `json:"verb"`
	Res     string   `json:"res"` // resource[/subresource]
	Name    string   `json:"name"`
	Det     string   `json:"det"`
	Ints    []int    `json:"ints"`
	Result  string   `json:"result"`
	Strs    []string `json:"strs"`
	obj     runtime.Object
	old     runtime.Object // stored object just before an update
}

// Fault describes an injected failure at one call index.
type Fault struct {
	Evict   string // "set" / "pod": when the fault fires, the set (the pod the call is about) also vanishes from the informer cache
	K       int    // position among the plan calls of one reconcile (1-based, list calls not counted); 0 if List is set
	Kind    string // ServerError | Conflict | NotFound | AlreadyExists | Timeout
	Applied bool   // the request took effect although an error is reported
	Die     bool   // the process dies here (before the call takes effect unless Applied)
	List    int    // 1-based index among the list calls of one reconcile; 0 if K is set
}

type crashSentinel struct{ at int }

type API struct {
	objs      map[string]map[string]runtime.Object
	rv        int
	uidn      int
	now       int64 // logical seconds, advanced on every create
	calls     []*Call
	n         int // number of calls since ResetLog (reads included)
	np        int // number of plan calls (everything but lists) since ResetLog
	nl        int // number of list calls since ResetLog
	faults    []Fault
	before    func(k int, verb, res, name string)
	onEvict   func(what, name string)
	logEvents bool                  // keep the watch streams (queue-driven behaviours)
	evlog     map[string][]apiEvent // every change of every resource, in order (the watch streams)
	inHook    bool
	quiet     bool // do not log (used by harness-side accesses through clients)
	countAll  bool // fault positions count list calls too (drivers whose subject is not the controller)
}

func NewAPI() *API {
	return &API{objs: map[string]map[string]runtime.Object{}, evlog: map[string][]apiEvent{}, now: 1000}
}

func (m *API) Reset() {
	m.objs = map[string]map[string]runtime.Object{}
	m.evlog = map[string][]apiEvent{}
	m.rv, m.uidn, m.now = 0, 0, 1000
	m.ResetLog()
}

func (m *API) ResetLog() {
	m.calls = nil
	m.n, m.np, m.nl = 0, 0, 0
	m.faults = nil
	m.before = nil
}

// ResetLogKeepFaults starts a fresh call log but keeps the fault plan and the interleaving hook.
func (m *API) ResetLogKeepFaults() {
	m.calls = nil
	m.n, m.np, m.nl = 0, 0, 0
}

func (m *API) faultFor(isList bool) (Fault, bool) {
	for _, f := range m.faults {
		if isList && f.List == m.nl && f.List > 0 {
			return f, true
		}
		if !isList && f.K == m.np && f.K > 0 {
			return f, true
		}
	}
	return Fault{}, false
}

func meta(o runtime.Object) metav1.Object { return o.(metav1.Object) }

func (m *API) nextRV() string { m.rv++; return fmt.Sprint(m.rv) }

// Put stores an object directly (harness-side world building / actor effects).
func (m *API) Put(res string, o runtime.Object) {
	if m.objs[res] == nil {
		m.objs[res] = map[string]runtime.Object{}
	}
	mo := meta(o)
	mo.SetResourceVersion(m.nextRV())
	if mo.GetUID() == "" {
		m.uidn++
		mo.SetUID(types.UID(fmt.Sprintf("uid-%d", m.uidn)))
	}
	m.objs[res][mo.GetName()] = o
	if m.logEvents {
		m.evlog[res] = append(m.evlog[res], apiEvent{Name: mo.GetName(), Obj: o.DeepCopyObject()})
	}
}

func (m *API) Get(res, name string) runtime.Object {
	if o, ok := m.objs[res][name]; ok {
		return o
	}
	return nil
}

func (m *API) Remove(res, name string) {
	if _, ok := m.objs[res][name]; ok && m.logEvents {
		m.evlog[res] = append(m.evlog[res], apiEvent{Name: name})
	}
	delete(m.objs[res], name)
}

// sameButRV: the two versions differ in nothing but (possibly) the resourceVersion.
func sameButRV(old, nw runtime.Object) bool {
	a, b := old.DeepCopyObject(), nw.DeepCopyObject()
	meta(a).SetResourceVersion("")
	meta(b).SetResourceVersion("")
	return apiequality.Semantic.DeepEqual(a, b)
}

// apiEvent: one entry of the watch stream of a resource (Obj == nil: the object was deleted).
type apiEvent struct {
	Name string
	Obj  runtime.Object
}

func (m *API) Names(res string) []string {
	names := make([]string, 0, len(m.objs[res]))
	for n := range m.objs[res] {
		names = append(names, n)
	}
	sort.Strings(names)
	return names
}

func gr(res string) schema.GroupResource {
	if res == RSts {
		return schema.GroupResource{Group: "apps", Resource: "statefulsets"}
	}
	return schema.GroupResource{Resource: res}
}

func resKey(a core.Action) string {
	r := a.GetResource()
	if r.Resource == "statefulsets" && r.Group == "apps" {
		return RSts
	}
	return r.Resource
}

func faultErr(kind, res, name string) error {
	switch kind {
	case "Conflict":
		return apierrors.NewConflict(gr(res), name, fmt.Errorf("injected conflict"))
	case "NotFound":
		return apierrors.NewNotFound(gr(res), name)
	case "AlreadyExists":
		return apierrors.NewAlreadyExists(gr(res), name)
	case "Timeout":
		return apierrors.NewTimeoutError("injected timeout", 1)
	case "Forbidden": // e.g. an exhausted quota or an admission webhook
		return apierrors.NewForbidden(gr(res), name, fmt.Errorf("injected: exceeded quota"))
	case "Invalid":
		return apierrors.NewInvalid(schema.GroupKind{Kind: res}, name, nil)
	default:
		return apierrors.NewInternalError(fmt.Errorf("injected server error"))
	}
}

func errKind(err error) string {
	switch {
	case err == nil:
		return "ok"
	case apierrors.IsNotFound(err):
		return "NotFound"
	case apierrors.IsAlreadyExists(err):
		return "AlreadyExists"
	case apierrors.IsConflict(err):
		return "Conflict"
	case apierrors.IsInvalid(err):
		return "Invalid"
	case apierrors.IsForbidden(err):
		return "Forbidden"
	case apierrors.IsTimeout(err) || apierrors.IsServerTimeout(err):
		return "Timeout"
	case apierrors.IsInternalError(err):
		return "ServerError"
	default:
		return "Error"
	}
}

// React is the reactor installed on both fake clientsets.
func (m *API) React(a core.Action) (bool, runtime.Object, error) {
	res := resKey(a)
	if res == "events" {
		if a.GetVerb() == "create" || a.GetVerb() == "update" {
			return true, a.(core.UpdateAction).GetObject(), nil
		}
		return true, &v1.Event{}, nil
	}
	if m.quiet {
		obj, err := m.exec(a, res, &Call{})
		return true, obj, err
	}
	c := &Call{Idx: m.n, Verb: a.GetVerb(), Res: res, Ints: []int{}, Strs: []string{}}
	if a.GetSubresource() != "" {
		c.Res = res + "/" + a.GetSubresource()
	}
	if res == RSts {
		c.Res = "apps.statefulsets"
	}
	m.n++
	if c.Verb == "list" && !m.countAll {
		m.nl++
	} else {
		m.np++
	}
	c.Name = actionName(a)
	if m.before != nil && !m.inHook {
		m.inHook = true
		m.before(c.Idx, c.Verb, c.Res, c.Name)
		m.inHook = false
	}
	m.calls = append(m.calls, c)
	if c.Verb == "create" || c.Verb == "update" {
		if o := a.(core.UpdateAction).GetObject(); o != nil {
			c.obj = o.DeepCopyObject()
			if old, ok := m.objs[res][meta(o).GetName()]; ok && c.Verb == "update" {
				c.old = old.DeepCopyObject()
			}
		}
	}
	c.PlanIdx = m.np
	if c.Verb == "patch" {
		c.Det = string(a.(core.PatchAction).GetPatch())
	}
	if c.Verb == "delete" {
		if pol := a.(core.DeleteAction).GetDeleteOptions().PropagationPolicy; pol != nil {
			c.Det = string(*pol)
		}
	}
	if f, ok := m.faultFor(c.Verb == "list" && !m.countAll); ok {
		if f.Evict != "" && m.onEvict != nil {
			m.onEvict(f.Evict, c.Name) // the informer drops the object from its cache at this very moment
		}
		if f.Die && !f.Applied {
			c.Result = "Died"
			panic(crashSentinel{c.Idx})
		}
		// "applied": the request is executed and only the answer is lost; if it cannot be executed (e.g. a stale
		// resourceVersion) nothing was applied and the fault degenerates to the plain one
		applied := false
		if f.Applied {
			_, xerr := m.exec(a, res, c)
			applied = xerr == nil
		}
		if f.Die {
			c.Result = "Died"
			if applied {
				c.Result = "DiedApplied"
			}
			panic(crashSentinel{c.Idx})
		}
		c.Result = f.Kind
		if applied {
			c.Result = f.Kind + "Applied"
		}
		return true, nil, faultErr(f.Kind, res, c.Name)
	}
	obj, err := m.exec(a, res, c)
	c.Result = errKind(err)
	return true, obj, err
}

func actionName(a core.Action) string {
	switch a.GetVerb() {
	case "get":
		return a.(core.GetAction).GetName()
	case "delete":
		return a.(core.DeleteAction).GetName()
	case "patch":
		return a.(core.PatchAction).GetName()
	case "create", "update":
		if o := a.(core.UpdateAction).GetObject(); o != nil {
			return meta(o).GetName()
		}
	}
	return ""
}

func newTyped(res string) runtime.Object {
	switch res {
	case RPods:
		return &v1.Pod{}
	case RPVC:
		return &v1.PersistentVolumeClaim{}
	case RRev:
		return &kubeapps.ControllerRevision{}
	case RSet:
		return &apps.StatefulSet{}
	case RSts:
		return &kubeapps.StatefulSet{}
	}
	return nil
}

func (m *API) exec(a core.Action, res string, c *Call) (runtime.Object, error) {
	switch a.GetVerb() {
	case "get":
		name := a.(core.GetAction).GetName()
		if o, ok := m.objs[res][name]; ok {
			return o.DeepCopyObject(), nil
		}
		return nil, apierrors.NewNotFound(gr(res), name)
	case "list":
		sel := a.(core.ListAction).GetListRestrictions().Labels
		if sel == nil {
			sel = labels.Everything()
		}
		c.Det = sel.String()
		return m.list(res, sel)
	case "watch":
		return nil, fmt.Errorf("watch is not served by MiniAPI")
	case "create":
		o := a.(core.UpdateAction).GetObject().DeepCopyObject()
		mo := meta(o)
		c.obj = o.DeepCopyObject()
		if _, ok := m.objs[res][mo.GetName()]; ok {
			return nil, apierrors.NewAlreadyExists(gr(res), mo.GetName())
		}
		if mo.GetResourceVersion() != "" {
			return nil, apierrors.NewBadRequest("resourceVersion should not be set on objects to be created")
		}
		m.now++
		mo.SetCreationTimestamp(metav1.Unix(m.now, 0))
		mo.SetUID("")
		mo.SetGeneration(1)
		mo.SetDeletionTimestamp(nil)
		if p, ok := o.(*v1.Pod); ok {
			p.Status = v1.PodStatus{Phase: v1.PodPending}
		}
		if s, ok := o.(*apps.StatefulSet); ok {
			s.Status = apps.StatefulSetStatus{}
		}
		c.obj = o.DeepCopyObject()
		m.Put(res, o)
		return o.DeepCopyObject(), nil
	case "update":
		o := a.(core.UpdateAction).GetObject().DeepCopyObject()
		mo := meta(o)
		c.obj = o.DeepCopyObject()
		old, ok := m.objs[res][mo.GetName()]
		if !ok {
			return nil, apierrors.NewNotFound(gr(res), mo.GetName())
		}
		mold := meta(old)
		c.old = old.DeepCopyObject()
		if mo.GetUID() != "" && mo.GetUID() != mold.GetUID() {
			return nil, apierrors.NewConflict(gr(res), mo.GetName(), fmt.Errorf("uid precondition failed"))
		}
		if mo.GetResourceVersion() != "" && mo.GetResourceVersion() != mold.GetResourceVersion() {
			return nil, apierrors.NewConflict(gr(res), mo.GetName(), fmt.Errorf("the object has been modified"))
		}
		switch res {
		case RSet:
			ns, os := o.(*apps.StatefulSet), old.(*apps.StatefulSet)
			if a.GetSubresource() == "status" {
				st := ns.Status
				ns = os.DeepCopy()
				ns.Status = st
			} else {
				ns.Status = os.Status
				ns.Generation = os.Generation
				if !apiequality.Semantic.DeepEqual(ns.Spec, os.Spec) {
					ns.Generation++
				}
				ns.UID, ns.CreationTimestamp, ns.DeletionTimestamp = os.UID, os.CreationTimestamp, os.DeletionTimestamp
			}
			o = ns
		case RSts:
			ns, os := o.(*kubeapps.StatefulSet), old.(*kubeapps.StatefulSet)
			if a.GetSubresource() == "status" {
				st := ns.Status
				ns = os.DeepCopy()
				ns.Status = st
			} else {
				ns.Status = os.Status
			}
			o = ns
		default:
			mo.SetUID(mold.GetUID())
			mo.SetCreationTimestamp(mold.GetCreationTimestamp())
			mo.SetDeletionTimestamp(mold.GetDeletionTimestamp())
			if p, ok := o.(*v1.Pod); ok { // pod status is a subresource
				p.Status = old.(*v1.Pod).Status
			}
		}
		if res == RPods && sameButRV(old, o) { // a write that changes nothing is not a new version (no watch event)
			return old.DeepCopyObject(), nil
		}
		m.Put(res, o)
		return o.DeepCopyObject(), nil
	case "patch":
		pa := a.(core.PatchAction)
		old, ok := m.objs[res][pa.GetName()]
		if !ok {
			return nil, apierrors.NewNotFound(gr(res), pa.GetName())
		}
		var pm struct {
			Metadata struct {
				UID string `json:"uid"`
			} `json:"metadata"`
		}
		_ = json.Unmarshal(pa.GetPatch(), &pm)
		if pm.Metadata.UID != "" && pm.Metadata.UID != string(meta(old).GetUID()) {
			return nil, apierrors.NewInvalid(schema.GroupKind{Kind: res}, pa.GetName(), nil)
		}
		c.Det = string(pa.GetPatch())
		oldJSON, _ := json.Marshal(old)
		typed := newTyped(res)
		nb, err := strategicpatch.StrategicMergePatch(oldJSON, pa.GetPatch(), typed)
		if err != nil {
			return nil, apierrors.NewBadRequest(err.Error())
		}
		if err := json.Unmarshal(nb, typed); err != nil {
			return nil, apierrors.NewBadRequest(err.Error())
		}
		nctl := 0
		for _, r := range meta(typed).GetOwnerReferences() {
			if r.Controller != nil && *r.Controller {
				nctl++
			}
		}
		if nctl > 1 {
			return nil, apierrors.NewInvalid(schema.GroupKind{Kind: res}, pa.GetName(), nil)
		}
		if res == RPods && sameButRV(old, typed) {
			return old.DeepCopyObject(), nil
		}
		m.Put(res, typed)
		return typed.DeepCopyObject(), nil
	case "delete":
		da := a.(core.DeleteAction)
		name := da.GetName()
		o, ok := m.objs[res][name]
		if !ok {
			return nil, apierrors.NewNotFound(gr(res), name)
		}
		if pol := da.GetDeleteOptions().PropagationPolicy; pol != nil {
			c.Det = string(*pol)
		}
		if p, isPod := o.(*v1.Pod); isPod {
			// the API server's grace period rule: finished or never scheduled pods go at once
			if p.Status.Phase != v1.PodFailed && p.Status.Phase != v1.PodSucceeded && p.Spec.NodeName != "" {
				if p.DeletionTimestamp == nil {
					p = p.DeepCopy()
					now := metav1.Unix(m.now, 0)
					p.DeletionTimestamp = &now
					m.Put(res, p)
				}
				return nil, nil
			}
		}
		m.Remove(res, name)
		return nil, nil
	}
	return nil, fmt.Errorf("unsupported %s %s", a.GetVerb(), res)
}

func (m *API) list(res string, sel labels.Selector) (runtime.Object, error) {
	names := m.Names(res)
	match := func(o runtime.Object) bool { return sel.Matches(labels.Set(meta(o).GetLabels())) }
	switch res {
	case RPods:
		l := &v1.PodList{}
		for _, n := range names {
			if o := m.objs[res][n]; match(o) {
				l.Items = append(l.Items, *o.(*v1.Pod).DeepCopy())
			}
		}
		return l, nil
	case RPVC:
		l := &v1.PersistentVolumeClaimList{}
		for _, n := range names {
			if o := m.objs[res][n]; match(o) {
				l.Items = append(l.Items, *o.(*v1.PersistentVolumeClaim).DeepCopy())
			}
		}
		return l, nil
	case RRev:
		l := &kubeapps.ControllerRevisionList{}
		for _, n := range names {
			if o := m.objs[res][n]; match(o) {
				l.Items = append(l.Items, *o.(*kubeapps.ControllerRevision).DeepCopy())
			}
		}
		return l, nil
	case RSet:
		l := &apps.StatefulSetList{}
		for _, n := range names {
			if o := m.objs[res][n]; match(o) {
				l.Items = append(l.Items, *o.(*apps.StatefulSet).DeepCopy())
			}
		}
		return l, nil
	case RSts:
		l := &kubeapps.StatefulSetList{}
		for _, n := range names {
			if o := m.objs[res][n]; match(o) {
				l.Items = append(l.Items, *o.(*kubeapps.StatefulSet).DeepCopy())
			}
		}
		return l, nil
	}
	return nil, fmt.Errorf("list %s unsupported", res)
}

// WatchReact refuses watches (informers are never started in the harness).
func (m *API) WatchReact(a core.Action) (bool, watch.Interface, error) {
	return true, watch.NewFake(), nil
}

func hasPrefixAny(s string, ps ...string) bool {
	for _, p := range ps {
		if strings.HasPrefix(s, p) {
			return true
		}
	}
	return false
}
