package main

// handlers.go (C16): the informer event handlers the controller REGISTERED (captured by the
// wrapping informers of env.go), the real work queue and the real worker loop body.

import (
	"encoding/json"
	"flag"
	"fmt"
	"os"
	"sort"
	"time"

	v1 "k8s.io/api/core/v1"
	metav1 "k8s.io/apimachinery/pkg/apis/meta/v1"
	"k8s.io/apimachinery/pkg/types"
	"k8s.io/client-go/tools/cache"
	"k8s.io/client-go/util/workqueue"

	apps "github.com/pingcap/advanced-statefulset/client/apis/apps/v1"
)

var hOwners = []string{"none", "S1", "S1alpha", "S1stale", "S2", "otherKind", "gone"}
var hLabels = []string{"L0", "L1", "L1b", "L2"}

type podShape struct {
	Owner string `json:"owner"`
	Lab   string `json:"lab"`
	Term  bool   `json:"term"`
}

func hSet(name string, sel map[string]string) *apps.StatefulSet {
	s := (&SetSpec{Name: name, Replicas: 0, Policy: "OrderedReady", Strat: "RollingUpdate", RuBlock: true, PartPresent: true, Tmpl: "t0", HistLimit: 10, Gen: 1}).Build()
	s.UID = types.UID("uid-" + name)
	s.Spec.Selector = &metav1.LabelSelector{MatchLabels: sel}
	s.Spec.Template.Labels = sel
	return s
}

func hPod(sh podShape, rv string) *v1.Pod {
	p := &v1.Pod{ObjectMeta: metav1.ObjectMeta{Name: "pod-x", Namespace: NS, ResourceVersion: rv, UID: "pod-uid"}}
	switch sh.Lab {
	case "L1":
		p.Labels = map[string]string{"app": "a"}
	case "L1b":
		p.Labels = map[string]string{"app": "a", "extra": "y"}
	case "L2":
		p.Labels = map[string]string{"app": "a", "tier": "x"}
	}
	t := true
	ref := func(kind, name, uid string) []metav1.OwnerReference {
		return []metav1.OwnerReference{{APIVersion: "apps.pingcap.com/v1", Kind: kind, Name: name, UID: types.UID(uid), Controller: &t, BlockOwnerDeletion: &t}}
	}
	switch sh.Owner {
	case "S1":
		p.OwnerReferences = ref("StatefulSet", "s1", "uid-s1")
	case "S1alpha": // the same set, referenced through the other API version the CRD serves
		p.OwnerReferences = ref("StatefulSet", "s1", "uid-s1")
		p.OwnerReferences[0].APIVersion = "apps.pingcap.com/v1alpha1"
	case "S1stale":
		p.OwnerReferences = ref("StatefulSet", "s1", "uid-of-an-earlier-s1")
	case "S2":
		p.OwnerReferences = ref("StatefulSet", "s2", "uid-s2")
	case "otherKind":
		p.OwnerReferences = ref("ReplicaSet", "s1", "uid-s1")
	case "gone":
		p.OwnerReferences = ref("StatefulSet", "nosuch", "uid-nosuch")
	}
	if sh.Term {
		now := metav1.Unix(900, 0)
		p.DeletionTimestamp = &now
	}
	return p
}

func keysToSets(keys []string) []string {
	out := []string{}
	for _, k := range keys {
		switch k {
		case NS + "/s1":
			out = append(out, "S1")
		case NS + "/s2":
			out = append(out, "S2")
		default:
			out = append(out, k)
		}
	}
	sort.Strings(out)
	return out
}

func (e *Env) hReset() (*apps.StatefulSet, *apps.StatefulSet) {
	e.Reset()
	s1 := hSet("s1", map[string]string{"app": "a"})
	s2 := hSet("s2", map[string]string{"app": "a", "tier": "x"})
	e.api.Put(RSet, s1.DeepCopy())
	e.api.Put(RSet, s2.DeepCopy())
	e.CacheSync(RSet, false)
	e.DrainQueue()
	return s1, s2
}

// handler table: every event shape through the registered handlers
func (e *Env) hTable(sh *shardWriter) int {
	n := 0
	var shapes []podShape
	for _, o := range hOwners {
		for _, l := range hLabels {
			for _, t := range []bool{false, true} {
				shapes = append(shapes, podShape{o, l, t})
			}
		}
	}
	emit := func(ev map[string]interface{}, fire func()) {
		e.DrainQueue()
		fire()
		ev["enq"] = keysToSets(e.DrainQueue())
		sh.write(ev)
		n++
	}
	s1, s2 := e.hReset()
	_ = s2
	for _, nw := range shapes {
		nw := nw
		emit(map[string]interface{}{"kind": "add", "new": nw}, func() {
			for _, h := range e.podInf.handlers {
				h.OnAdd(hPod(nw, "2"), false)
			}
		})
		emit(map[string]interface{}{"kind": "delete", "new": nw}, func() {
			for _, h := range e.podInf.handlers {
				h.OnDelete(hPod(nw, "2"))
			}
		})
		emit(map[string]interface{}{"kind": "tombstone", "new": nw}, func() {
			for _, h := range e.podInf.handlers {
				h.OnDelete(cache.DeletedFinalStateUnknown{Key: NS + "/pod-x", Obj: hPod(nw, "2")})
			}
		})
		for _, old := range shapes {
			old := old
			if old.Term && !nw.Term {
				continue // a deletion timestamp is never removed
			}
			for _, same := range []bool{false, true} {
				same := same
				emit(map[string]interface{}{"kind": "update", "old": old, "new": nw, "rvSame": same}, func() {
					orv := "1"
					if same {
						orv = "2"
					}
					for _, h := range e.podInf.handlers {
						h.OnUpdate(hPod(old, orv), hPod(nw, "2"))
					}
				})
			}
		}
	}
	for _, s := range []*apps.StatefulSet{s1, s2} {
		s := s
		nm := map[string]string{"s1": "S1", "s2": "S2"}[s.Name]
		emit(map[string]interface{}{"kind": "setAdd", "set": nm}, func() {
			for _, h := range e.setInf.handlers {
				h.OnAdd(s, false)
			}
		})
		// "any change to a set enqueues it": the status, only an annotation (slots, the pause flag lifted), only a label
		for _, what := range []string{"status", "slots", "unpause", "label"} {
			what := what
			emit(map[string]interface{}{"kind": "setUpdate", "set": nm, "what": what}, func() {
				o := s.DeepCopy()
				o.ResourceVersion = "1"
				switch what {
				case "status":
					o.Status.Replicas = 5
				case "slots":
					o.Annotations = map[string]string{"delete-slots": "[1]"}
				case "unpause":
					o.Annotations = map[string]string{"paused-reconcile": "true"}
				case "label":
					o.Labels = map[string]string{"team": "x"}
				}
				for _, h := range e.setInf.handlers {
					h.OnUpdate(o, s)
				}
			})
		}
		emit(map[string]interface{}{"kind": "setDelete", "set": nm}, func() {
			for _, h := range e.setInf.handlers {
				h.OnDelete(s)
			}
		})
	}
	return n
}

// queue / worker sequences. ops: "E" event outside processing; "Pok"/"Pfail" process one item (sync succeeds / fails);
// "PokE"/"PfailE" the same with an event arriving while the item is being processed. After a failing item the driver waits
// until the rate-limited retry has been re-added (the limiter's timer is the only asynchronous part).
func (e *Env) hSequence(ops []string) map[string]interface{} {
	e.hReset()
	q := e.ssc.VerifQueue()
	key := NS + "/s1"
	seq := 0
	events := []int{}
	starts := []int{}
	fire := func() {
		seq++
		events = append(events, seq)
		for _, h := range e.podInf.handlers {
			h.OnAdd(hPod(podShape{Owner: "S1", Lab: "L1"}, "2"), false)
		}
	}
	obs := []map[string]interface{}{}
	// every kind of API error makes a reconcile fail; the failing ones of a sequence rotate through them
	failKinds := []string{"ServerError", "Forbidden", "Conflict", "Invalid", "Timeout", "AlreadyExists"}
	nfail := len(ops) + 5*len(ops[0])
	for _, op := range ops {
		processed := false
		switch op {
		case "E":
			fire()
		case "T":
			deadline := time.Now().Add(3 * time.Second)
			for q.Len() == 0 && time.Now().Before(deadline) {
				time.Sleep(2 * time.Millisecond)
			}
		default:
			if q.Len() > 0 {
				processed = true
				e.api.ResetLog()
				if op == "Pfail" || op == "PfailE" {
					// ... at the first list call (adoption of revisions) or at the second (inside the control's UpdateStatefulSet)
					e.api.faults = []Fault{{List: 1 + (nfail/len(failKinds))%2, Kind: failKinds[nfail%len(failKinds)]}}
					nfail++
				}
				first := true
				e.api.before = func(k int, verb, res, name string) {
					if first {
						first = false
						seq++
						starts = append(starts, seq)
						if op == "PokE" || op == "PfailE" {
							fire()
						}
					}
				}
				e.ssc.VerifProcessNextWorkItem()
				e.api.before = nil
				e.api.faults = nil
				e.CacheSync(RSet, false) // the set cache follows the controller's own status write (no handler fired)
				if op == "Pfail" || op == "PfailE" {
					// wait for the rate-limited re-add, so that the next observation does not race with the limiter's timer
					deadline := time.Now().Add(3 * time.Second)
					for q.Len() == 0 && time.Now().Before(deadline) {
						time.Sleep(time.Millisecond)
					}
				}
			}
		}
		obs = append(obs, map[string]interface{}{"op": op, "processed": processed, "queued": q.Len() > 0, "requeues": q.NumRequeues(key)})
	}
	// settle: keep serving until nothing is queued and no retry is pending
	for r := 0; r < 12; r++ {
		deadline := time.Now().Add(40 * time.Millisecond)
		if q.NumRequeues(key) > 0 {
			deadline = time.Now().Add(3 * time.Second)
		}
		for q.Len() == 0 && time.Now().Before(deadline) {
			time.Sleep(2 * time.Millisecond)
		}
		if q.Len() == 0 {
			break
		}
		e.api.ResetLog()
		first := true
		e.api.before = func(k int, verb, res, name string) {
			if first {
				first = false
				seq++
				starts = append(starts, seq)
			}
		}
		e.ssc.VerifProcessNextWorkItem()
		e.api.before = nil
		e.CacheSync(RSet, false)
	}
	if events == nil {
		events = []int{}
	}
	if starts == nil {
		starts = []int{}
	}
	return map[string]interface{}{"kind": "queue", "ops": ops, "obs": obs, "events": events, "starts": starts,
		"finalQueued": q.Len() > 0, "finalRequeues": q.NumRequeues(key)}
}

func fastQueue() workqueue.RateLimitingInterface {
	return workqueue.NewNamedRateLimitingQueue(workqueue.NewItemExponentialFailureRateLimiter(time.Microsecond, 200*time.Microsecond), "statefulset-verif")
}

func cmdHandlers(args []string) {
	fs := flag.NewFlagSet("handlers", flag.ExitOnError)
	depth := fs.Int("depth", 4, "length of the queue/worker op sequences (all sequences are enumerated)")
	out := fs.String("out", "", "")
	one := fs.String("ops", "", "replay one op sequence (JSON list)")
	fs.Parse(args)
	os.MkdirAll(*out, 0o755)
	e := NewEnv()
	sh := newShard(*out, 0)
	if *one != "" {
		var ops []string
		json.Unmarshal([]byte(*one), &ops)
		if len(ops) > 8 { // the long runs of failures are executed on the queue with the fast rate limiter (see below)
			e.ssc.VerifSetQueue(fastQueue())
		}
		sh.write(e.hSequence(ops))
		sh.close()
		return
	}
	n := e.hTable(sh)
	sh.close()
	// sequences
	alphabet := []string{"E", "Pok", "Pfail", "PokE", "PfailE"}
	var seqs [][]string
	var gen func(cur []string, fails int)
	gen = func(cur []string, fails int) {
		if len(cur) > 0 {
			seqs = append(seqs, append([]string{}, cur...))
		}
		if len(cur) == *depth {
			return
		}
		for _, a := range alphabet {
			f := fails
			if a == "Pfail" || a == "PfailE" {
				f++
			}
			if f > 3 {
				continue // every failure costs real back-off time
			}
			gen(append(cur, a), f)
		}
	}
	gen(nil, 0)
	sq := newShard(*out, 1)
	for _, s := range seqs {
		sq.write(e.hSequence(s))
	}
	// long runs of failing reconciles (a failing set must come back every time, however often it failed): on a queue of the
	// production type whose rate limiter is fast enough to get through them
	fast := NewEnv()
	fast.ssc.VerifSetQueue(fastQueue())
	nlong := 0
	for _, n := range []int{16, 24, 40} {
		// (plain failures only: with an event during every failing reconcile the key is back at once and the limiter's
		// timer fires at an unobserved moment later on)
		for _, op := range []string{"Pfail"} {
			long := []string{"E"}
			for k := 0; k < n; k++ {
				long = append(long, op)
			}
			long = append(long, "Pok")
			sq.write(fast.hSequence(long))
			nlong++
		}
	}
	sq.close()
	b, _ := json.Marshal(map[string]interface{}{"records": n + len(seqs) + nlong, "events": n, "sequences": len(seqs) + nlong, "exhaustive": true,
		"domain": fmt.Sprintf("handler table (%d event shapes) + all op sequences up to length %d", n, *depth)})
	os.WriteFile(*out+"/meta.json", b, 0o644)
	fmt.Println(string(b))
}
