package main

// sim.go: replay of cluster behaviours (sequences of the actions of spec/Cluster.tla) on the
// real controller. Behaviours come from TLC's simulation mode (direction A) or from the seeded
// random driver below (direction B). Every step is logged with the projected cluster state,
// every reconcile additionally as a snapshot record; a fair tail then drives the system to a
// fixed point. TraceCluster.tla judges the result.

import (
	"bufio"
	"encoding/json"
	"flag"
	"fmt"
	"math/rand"
	"os"
	"path/filepath"
	"sort"
	"strings"
	"sync"
	"time"

	v1 "k8s.io/api/core/v1"
	metav1 "k8s.io/apimachinery/pkg/apis/meta/v1"

	apps "github.com/pingcap/advanced-statefulset/client/apis/apps/v1"
	"github.com/pingcap/advanced-statefulset/client/apis/apps/v1/helper"
)

type Act map[string]interface{}

func (a Act) name() string { s, _ := a["act"].(string); return s }
func (a Act) num(k string) int {
	f, _ := a[k].(float64)
	return int(f)
}

type simRev struct {
	Name, Tmpl, Owner string
	Num, Created      int64
	Marker            bool
	Sel               *bool
}

type simSet struct {
	Replicas  int32
	Slots     []int
	Policy    string
	Strat     string
	Part      int32
	Tmpl      string
	Paused    bool
	HistLimit int32
	Gen       int64
	NClaims   int
	Status    struct {
		ObsGen, Replicas, Ready, Current, Updated, Collisions int32
		CurRev, UpdRev                                        string
	}
}

// A behaviour is a list of actions; the first one ("Setup") carries the initial set and revision history.
type Behaviour struct {
	Acts []Act
	ID   string `json:"id"`
}

type simInit struct {
	Set  simSet
	Revs []simRev
}

const simName = "foo"

func (w *World) loadSimInit(a Act) {
	var in simInit
	raw, _ := json.Marshal(map[string]interface{}{"Set": a["set"], "Revs": a["revs"]})
	if err := json.Unmarshal(raw, &in); err != nil {
		panic(err)
	}
	s := in.Set
	sc := &Scenario{}
	strat := s.Strat
	if strat == "RollingUpdateBare" { // type RollingUpdate without the rollingUpdate block
		strat = "RollingUpdate"
	}
	sc.Set = SetSpec{Name: simName, Replicas: s.Replicas, SlotsAnn: slotsAnn(s.Slots), Policy: s.Policy, Strat: strat,
		RuBlock: s.Strat == "RollingUpdate", PartPresent: s.Strat == "RollingUpdate", Part: s.Part, Tmpl: s.Tmpl, Paused: s.Paused,
		HistLimit: s.HistLimit, Gen: s.Gen, ObsGen: int64(s.Status.ObsGen), StReplicas: s.Status.Replicas, StReady: s.Status.Ready,
		StCurrent: s.Status.Current, StUpdated: s.Status.Updated, CurRev: s.Status.CurRev, UpdRev: s.Status.UpdRev, Collisions: s.Status.Collisions,
		NClaims: s.NClaims}
	for _, r := range in.Revs {
		owner := r.Owner
		if owner == "other" {
			owner = "builtin"
		}
		if owner == "" {
			owner = "self"
		}
		sc.Revs = append(sc.Revs, RevSpec{Name: r.Name, Tmpl: r.Tmpl, Num: r.Num, Created: 100 + r.Created, Owner: owner,
			Marker: r.Marker, NoSel: r.Sel != nil && !*r.Sel})
	}
	w.Load(sc)
}

func (w *World) podName(o int) string { return fmt.Sprintf("%s-%d", simName, o) }

func intsOf(v interface{}) []int {
	out := []int{}
	if l, ok := v.([]interface{}); ok {
		for _, x := range l {
			if f, ok := x.(float64); ok {
				out = append(out, int(f))
			}
		}
	}
	sort.Ints(out)
	return out
}

func faultsOf(v interface{}) []Fault {
	var out []Fault
	l, _ := v.([]interface{})
	for _, x := range l {
		m, _ := x.(map[string]interface{})
		f := Fault{}
		if k, ok := m["k"].(float64); ok {
			f.K = int(k)
		}
		if k, ok := m["list"].(float64); ok {
			f.List = int(k)
		}
		f.Kind, _ = m["kind"].(string)
		f.Applied, _ = m["applied"].(bool)
		f.Die, _ = m["die"].(bool)
		out = append(out, f)
	}
	return out
}

// apply performs one action on the real world; ok=false means its guard did not hold (nothing was done).
func (w *World) apply(a Act) (ok bool, rec map[string]interface{}) {
	e := w.e
	o := a.num("o")
	switch a.name() {
	case "Setup":
		w.loadSimInit(a)
		if w.queueMode { // the informer's initial list delivers the set as an add event
			e.ssc.VerifQueue().Add(NS + "/" + simName)
		}
		return true, nil
	case "Scramble":
		pod, _ := a["pod"].(map[string]interface{})
		set := e.apiSet(simName)
		if cl, _ := a["claim"].(bool); cl {
			// the claim of this ordinal exists already (left behind by an earlier incarnation of the pod)
			for _, t := range set.Spec.VolumeClaimTemplates {
				c := t.DeepCopy()
				c.Name, c.Namespace = fmt.Sprintf("%s-%s-%d", t.Name, simName, o), NS
				e.api.Put(RPVC, c)
				e.pvcIdx.Add(e.api.Get(RPVC, c.Name).DeepCopyObject())
			}
		}
		if present, _ := pod["present"].(bool); !present {
			return true, nil
		}
		ph, _ := pod["phase"].(string)
		rev, _ := pod["rev"].(string)
		owner, _ := pod["owner"].(string)
		ready, _ := pod["ready"].(bool)
		term, _ := pod["term"].(bool)
		if owner == "other" {
			owner = "builtin"
		}
		p := w.BuildPod(set, PodSpec{Ord: o, Phase: ph, Ready: ready, Term: term, Rev: rev, Owner: owner}, len(set.Spec.VolumeClaimTemplates))
		e.api.Put(RPods, p)
		e.podIdx.Add(e.apiPod(p.Name).DeepCopy())
		e.cursor[RPods] = len(e.api.evlog[RPods]) // (the initial population is in the cache already: no events)
		return true, nil
	case "Reconcile":
		if w.queueMode && e.ssc.VerifQueue().Len() == 0 {
			return false, nil // nothing has woken the controller
		}
		e.api.faults = faultsOf(a["faults"])
		rec = w.Reconcile(simName)
		e.api.faults = nil
		if rec["res"] == "died" {
			e.DrainQueue()
			e.CacheSyncAll(false) // the restarted controller re-lists
			if w.queueMode {
				e.ssc.VerifQueue().Add(NS + "/" + simName)
			}
		} else if w.queueMode && rec["res"] != "ok" {
			// the failed key comes back through the rate limiter; the step ends when it has arrived
			if !e.WaitQueued(30 * time.Second) {
				rec["retryLost"] = true
			}
		}
		return true, rec
	case "SyncSetCache":
		cs := w.cachedSet(simName)
		as := e.apiSet(simName)
		if cs != nil && as != nil && cs.ResourceVersion == as.ResourceVersion {
			return false, nil
		}
		e.CacheSync(RSet, w.queueMode)
		return true, nil
	case "SyncPodCache":
		before := len(e.podIdx.ListKeys())
		same := before == len(e.api.Names(RPods))
		if same {
			for _, n := range e.api.Names(RPods) {
				c, exists, _ := e.podIdx.GetByKey(NS + "/" + n)
				if !exists || c.(*v1.Pod).ResourceVersion != e.apiPod(n).ResourceVersion {
					same = false
				}
			}
		}
		if same {
			return false, nil
		}
		e.CacheSync(RPods, w.queueMode)
		return true, nil
	case "SyncPvcCache":
		if len(e.pvcIdx.ListKeys()) == len(e.api.Names(RPVC)) { // claims are never updated or removed
			return false, nil
		}
		e.CacheSync(RPVC, false)
		return true, nil
	case "PodRunning":
		return e.PodRunning(w.podName(o)), nil
	case "PodReady":
		return e.PodSetReady(w.podName(o), true), nil
	case "PodUnready":
		return e.PodSetReady(w.podName(o), false), nil
	case "PodFail":
		p := e.apiPod(w.podName(o))
		if p == nil || (p.Status.Phase != v1.PodPending && p.Status.Phase != v1.PodRunning) {
			return false, nil
		}
		return e.PodFinish(w.podName(o), v1.PodFailed), nil
	case "FinishTerminating":
		return e.FinishTerminating(w.podName(o)), nil
	case "DeletePodByHand":
		p := e.apiPod(w.podName(o))
		if p == nil || p.DeletionTimestamp != nil {
			return false, nil
		}
		if p.Status.Phase == v1.PodFailed || p.Status.Phase == v1.PodSucceeded || p.Spec.NodeName == "" {
			e.api.Remove(RPods, p.Name)
		} else {
			p = p.DeepCopy()
			now := metav1.Unix(e.api.now, 0)
			p.DeletionTimestamp = &now
			e.api.Put(RPods, p)
		}
		return true, nil
	case "GCOrphanPod":
		p := e.apiPod(w.podName(o))
		if p == nil || ownerClass(p, e.apiSet(simName)) != "other" {
			return false, nil
		}
		p = p.DeepCopy()
		p.OwnerReferences = nil
		e.api.Put(RPods, p)
		return true, nil
	case "GCOrphanRev":
		// k is the position in the API's list order (sorted by real name), as in the logged state
		names := e.api.Names(RRev)
		k := a.num("k")
		if k < 1 || k > len(names) {
			return false, nil
		}
		r := e.apiRev(names[k-1])
		if ownerClass(r, e.apiSet(simName)) != "other" {
			return false, nil
		}
		r = r.DeepCopy()
		r.OwnerReferences = nil
		e.api.Put(RRev, r)
		return true, nil
	case "SetReplicas":
		r := int32(a.num("r"))
		return e.UserUpdate(simName, func(s *apps.StatefulSet) { s.Spec.Replicas = &r }), nil
	case "SetSlots":
		sl := intsOf(a["slots"])
		return e.UserUpdate(simName, func(s *apps.StatefulSet) { setSlotsAnn(s, sl) }), nil
	case "ScaleInAt":
		k := a.num("k")
		return e.UserUpdate(simName, func(s *apps.StatefulSet) {
			sl := append(parseSlots(s), k)
			setSlotsAnn(s, sl)
			r := *s.Spec.Replicas - 1
			s.Spec.Replicas = &r
		}), nil
	case "EditTemplate":
		t, _ := a["t"].(string)
		return e.UserUpdate(simName, func(s *apps.StatefulSet) {
			s.Spec.Template = baseTemplate(simName, t, len(s.Spec.VolumeClaimTemplates))
		}), nil
	case "SetPartition":
		p := int32(a.num("p"))
		return e.UserUpdate(simName, func(s *apps.StatefulSet) {
			if s.Spec.UpdateStrategy.RollingUpdate == nil {
				s.Spec.UpdateStrategy.RollingUpdate = &apps.RollingUpdateStatefulSetStrategy{}
			}
			s.Spec.UpdateStrategy.RollingUpdate.Partition = &p
		}), nil
	case "Pause":
		return e.UserUpdate(simName, func(s *apps.StatefulSet) { helper.SetPausedReconcile(s, true) }), nil
	case "Unpause":
		if s := e.apiSet(simName); s == nil || s.Annotations[helper.PausedReconcileAnn] != "true" {
			return false, nil
		}
		return e.UserUpdate(simName, func(s *apps.StatefulSet) {
			delete(s.Annotations, helper.PausedReconcileAnn)
			if len(s.Annotations) == 0 {
				s.Annotations = nil
			}
		}), nil
	}
	return false, nil
}

func setSlotsAnn(s *apps.StatefulSet, sl []int) {
	seen := map[int]bool{}
	u := []int{}
	for _, x := range sl {
		if !seen[x] {
			seen[x] = true
			u = append(u, x)
		}
	}
	sort.Ints(u)
	if len(u) == 0 {
		delete(s.Annotations, helper.DeleteSlotsAnn)
		if len(s.Annotations) == 0 {
			s.Annotations = nil
		}
		return
	}
	if s.Annotations == nil {
		s.Annotations = map[string]string{}
	}
	b, _ := json.Marshal(u)
	s.Annotations[helper.DeleteSlotsAnn] = string(b)
}

// ClusterState: the projected state of the whole cluster (what Cluster.tla calls [api, cache]).
func (w *World) ClusterState() map[string]interface{} {
	as := w.e.apiSet(simName)
	cs := w.cachedSet(simName)
	return map[string]interface{}{
		"set":    w.AbsSetObj(as, simName),
		"cset":   w.AbsSetObj(cs, simName),
		"pods":   w.AbsPods(as, w.apiPods()),
		"cpods":  w.AbsPods(cs, w.cachedPods()),
		"revs":   w.AbsRevs(as),
		"rvSame": as != nil && cs != nil && as.ResourceVersion == cs.ResourceVersion,
		"queued": w.queueMode && w.e.ssc.VerifQueue().Len() > 0,
		// the pod events the informer has not delivered yet, each as the (old, new) pair its handler will see
		"pending": w.pendingPodEvents(as),
		"pvcs":    w.AbsApiPVCs(),
		"cpvcs":   w.AbsPVCs(),
		// the identity of every claim object: a claim that is deleted and re-created is a different claim
		"pvcuids": w.pvcUIDs(),
	}
}

func (w *World) pendingPodEvents(set *apps.StatefulSet) [][][]interface{} {
	out := [][][]interface{}{}
	e := w.e
	if !e.api.logEvents {
		return out
	}
	cur := map[string]*v1.Pod{}
	for _, o := range e.podIdx.List() {
		p := o.(*v1.Pod)
		cur[p.Name] = p
	}
	abs := func(p *v1.Pod) []interface{} {
		if p == nil {
			return []interface{}{}
		}
		return w.AbsPods(set, []*v1.Pod{p})[0]
	}
	for _, ev := range e.api.evlog[RPods][e.cursor[RPods]:] {
		old := cur[ev.Name]
		var nw *v1.Pod
		if ev.Obj != nil {
			nw = ev.Obj.(*v1.Pod)
		}
		if old == nil && nw == nil {
			continue
		}
		out = append(out, [][]interface{}{abs(old), abs(nw)})
		if nw == nil {
			delete(cur, ev.Name)
		} else {
			cur[ev.Name] = nw
		}
	}
	return out
}

func (w *World) pvcUIDs() [][]string {
	out := [][]string{}
	for _, n := range w.e.api.Names(RPVC) {
		out = append(out, []string{n, string(meta(w.e.api.Get(RPVC, n)).GetUID())})
	}
	return out
}

// anyTerminating: the kubelet still owes the cluster a step.
func (w *World) anyTerminating() bool {
	for _, p := range w.apiPods() {
		if p.DeletionTimestamp != nil {
			return true
		}
	}
	return false
}

func stateKey(st map[string]interface{}) string {
	b, _ := json.Marshal(st)
	return string(b)
}

func writesOf(rec map[string]interface{}) int {
	n := 0
	calls, _ := rec["calls"].([][]interface{})
	for _, c := range calls {
		if v, _ := c[0].(string); v == "create" || v == "update" || v == "patch" || v == "delete" {
			n++
		}
	}
	return n
}

type simOut struct {
	Steps  []map[string]interface{}
	Tail   []map[string]interface{}
	Final  map[string]interface{}
	Rounds int
	Quiet  bool
	Fair   bool
	Recs   []map[string]interface{}
}

// run replays the prefix and then the fair tail. strip: "faults" removes injected faults, "pause" removes Pause/Unpause.
func (w *World) run(b *Behaviour, strip string, maxRounds int) *simOut {
	out := &simOut{}
	if w.queueMode {
		// a controller (work queue, rate limiter) of its own for every behaviour: no retry of an earlier one can arrive here
		w.e.ssc.VerifQueue().ShutDown()
		w.e = NewEnv()
		w.e.api.logEvents = true
	}
	w.e.Reset()
	for _, a := range b.Acts {
		if strip == "faults" && a.name() == "Reconcile" {
			c := Act{}
			for k, v := range a {
				c[k] = v
			}
			c["faults"] = []interface{}{}
			a = c
		}
		if strip == "pause" && (a.name() == "Pause" || a.name() == "Unpause") {
			continue
		}
		if _, has := a["claim"]; a.name() == "Scramble" && !has {
			a["claim"] = false
		}
		var ok bool
		var rec map[string]interface{}
		if a.name() == "Setup" || w.userGuard(a, w.guardMaxOrd) {
			ok, rec = w.apply(a)
		}
		step := map[string]interface{}{"act": a, "enabled": ok, "state": w.ClusterState()}
		if rec != nil {
			step["res"] = rec["res"]
			step["ncalls"] = len(rec["calls"].([][]interface{}))
			step["calls"] = rec["calls"]
			// fault positions in the canonical call order (the order inside the claim segment is cache order)
			step["faults"] = rec["sn"].(map[string]interface{})["faults"]
			out.Recs = append(out.Recs, rec)
		}
		out.Steps = append(out.Steps, step)
	}
	// the fair tail: the user has stopped (and lifted the pause), faults have stopped, caches catch up, the
	// kubelet makes every pod Running and Ready and removes terminating ones, the controller keeps reconciling
	w.apply(Act{"act": "Unpause"})
	w.gcAll() // the garbage collector finishes orphaning the dependents of a deleted built-in set
	prev := ""
	var termSeen map[string]bool
	if w.slowTail {
		termSeen = map[string]bool{}
	}
	for r := 0; r < maxRounds; r++ {
		w.e.CacheSyncAll(w.queueMode)
		var rec map[string]interface{}
		if w.queueMode {
			// no resync: the controller runs only if an event (or a retry) has put the key on the queue
			if _, rec = w.apply(Act{"act": "Reconcile", "faults": []interface{}{}}); rec == nil {
				rec = map[string]interface{}{"res": "ok", "calls": [][]interface{}{}, "idle": true}
			} else {
				out.Recs = append(out.Recs, rec)
			}
		} else {
			rec = w.Reconcile(simName)
			out.Recs = append(out.Recs, rec)
		}
		// (slow tail: a terminating pod outlives one more reconcile)
		w.e.KubeletSome(termSeen)
		w.e.CacheSyncAll(w.queueMode)
		st := w.ClusterState()
		out.Tail = append(out.Tail, map[string]interface{}{"res": rec["res"], "writes": writesOf(rec), "state": st})
		out.Rounds = r + 1
		k := stateKey(st)
		if k == prev && writesOf(rec) == 0 && rec["res"] == "ok" && !w.anyTerminating() {
			out.Quiet = true
			break
		}
		prev = k
	}
	out.Fair = true
	out.Final = w.ClusterState()
	return out
}

// randomBehaviour: the seeded driver that needs no help from TLC: it samples actions whose guard holds in the real world.
func (w *World) randomBehaviour(r *rand.Rand, maxOrd, depth int, id string, migration bool, claims int) *Behaviour {
	b := &Behaviour{ID: id}
	tm := []string{"t0", "t1", "t2"}
	in := &simInit{}
	s := &in.Set
	s.Replicas = int32(r.Intn(maxOrd + 1))
	for o := 0; o <= maxOrd; o++ {
		if r.Intn(4) == 0 {
			s.Slots = append(s.Slots, o)
		}
	}
	// keep the desired set inside 0..maxOrd
	for int(s.Replicas)+len(s.Slots) > maxOrd+1 {
		s.Replicas--
	}
	s.Policy = []string{"OrderedReady", "Parallel"}[r.Intn(2)]
	s.Strat = []string{"RollingUpdate", "RollingUpdate", "OnDelete", "RollingUpdateBare"}[r.Intn(4)]
	if s.Strat == "RollingUpdate" {
		s.Part = int32(r.Intn(3))
	}
	s.Tmpl = tm[r.Intn(3)]
	s.HistLimit, s.Gen = int32(r.Intn(3)), 1
	switch claims { // 0: never, 1: always, 2: half of the behaviours
	case 1:
		s.NClaims = 1
	case 2:
		s.NClaims = r.Intn(2)
	}
	nrev := r.Intn(3)
	if migration {
		nrev = 1 + r.Intn(2)
	}
	perm := r.Perm(3)
	for k := 0; k < nrev; k++ {
		in.Revs = append(in.Revs, simRev{Name: tm[perm[k]] + ".0", Tmpl: tm[perm[k]], Num: int64(k + 1), Created: int64(k + 1), Owner: "self"})
	}
	if migration {
		s.Tmpl = in.Revs[nrev-1].Tmpl
	}
	if nrev > 0 && (migration || r.Intn(2) == 0) {
		s.Status.CurRev = in.Revs[0].Name
		s.Status.UpdRev = in.Revs[nrev-1].Name
	}
	if migration {
		s.Status.Collisions = int32(r.Intn(2)) // the built-in set had a name collision once (its revisions predate it)
	}
	{
		if s.Slots == nil {
			s.Slots = []int{}
		}
		sb, _ := json.Marshal(map[string]interface{}{"replicas": s.Replicas, "slots": s.Slots, "policy": s.Policy, "strat": s.Strat, "part": s.Part,
			"tmpl": s.Tmpl, "paused": false, "histLimit": s.HistLimit, "gen": 1, "nclaims": s.NClaims,
			"status": map[string]interface{}{"obsGen": 0, "replicas": 0, "ready": 0, "current": 0, "updated": 0, "collisions": s.Status.Collisions,
				"curRev": s.Status.CurRev, "updRev": s.Status.UpdRev}})
		var sm map[string]interface{}
		json.Unmarshal(sb, &sm)
		revs := []interface{}{}
		for _, r := range in.Revs {
			if migration {
				revs = append(revs, map[string]interface{}{"name": r.Name, "tmpl": r.Tmpl, "num": float64(r.Num), "created": float64(r.Created),
					"owner": "other", "marker": true, "sel": false})
			} else {
				revs = append(revs, map[string]interface{}{"name": r.Name, "tmpl": r.Tmpl, "num": float64(r.Num), "created": float64(r.Created), "owner": "self"})
			}
		}
		b.Acts = append(b.Acts, Act{"act": "Setup", "set": sm, "revs": revs})
	}
	phases := []string{"Pending", "Running", "Running", "Failed"}
	for o := 0; o <= maxOrd; o++ {
		pod := map[string]interface{}{"present": false, "phase": "", "ready": false, "term": false, "rev": "", "owner": ""}
		if nrev > 0 && r.Intn(3) > 0 {
			ph := phases[r.Intn(4)]
			pod = map[string]interface{}{"present": true, "phase": ph, "ready": ph == "Running" && r.Intn(2) == 0,
				"term": ph != "Pending" && r.Intn(4) == 0, "rev": in.Revs[r.Intn(nrev)].Name, "owner": []string{"self", "self", "none"}[r.Intn(3)]}
			if migration {
				pod["phase"], pod["term"], pod["owner"] = "Running", false, "other"
				pod["ready"] = r.Intn(3) > 0
			}
			if ph == "Failed" && !desiredContains(int(s.Replicas), s.Slots, o) && s.Policy != "Parallel" {
				pod["phase"] = "Running" // the fairness premise of C02
			}
		}
		present, _ := pod["present"].(bool)
		b.Acts = append(b.Acts, Act{"act": "Scramble", "o": float64(o), "pod": pod, "claim": s.NClaims > 0 && (present || r.Intn(3) == 0)})
	}
	edits, faults, fails := 3, 2, 2
	if migration {
		edits = 0 // the property speaks about the reconciles after a migration, not about later edits
	}
	kinds := [][]interface{}{{"ServerError", false, false}, {"Conflict", false, false}, {"NotFound", false, false}, {"Timeout", true, false},
		{"Timeout", false, false}, {"AlreadyExists", false, false}, {"Die", false, true}, {"Die", true, true},
		{"Forbidden", false, false}, {"Invalid", false, false}}
	for len(b.Acts) < depth {
		o := float64(r.Intn(maxOrd + 1))
		var a Act
		switch x := r.Intn(20); {
		case x < 6:
			a = Act{"act": "Reconcile", "faults": []interface{}{}}
			if faults > 0 && r.Intn(3) == 0 {
				kd := kinds[r.Intn(len(kinds))]
				if w.queueMode && r.Intn(2) == 0 { // errors a client may be tempted to call permanent
					kd = kinds[len(kinds)-1-r.Intn(2)]
				}
				f := map[string]interface{}{"k": float64(1 + r.Intn(6)), "kind": kd[0], "applied": kd[1], "die": kd[2], "list": float64(0)}
				if r.Intn(8) == 0 {
					f["k"], f["list"] = float64(0), float64(1+r.Intn(4))
				}
				a["faults"] = []interface{}{f}
				faults--
			}
		case x < 8:
			a = Act{"act": "SyncSetCache"}
		case x < 10:
			a = Act{"act": "SyncPodCache"}
			if s.NClaims > 0 && r.Intn(3) == 0 {
				a = Act{"act": "SyncPvcCache"}
			}
		case x < 12:
			a = Act{"act": "PodRunning", "o": o}
		case x < 14:
			a = Act{"act": "PodReady", "o": o}
		case x < 15:
			a = Act{"act": "FinishTerminating", "o": o}
		case migration && x >= 16 && x < 19:
			if r.Intn(2) == 0 {
				a = Act{"act": "GCOrphanPod", "o": o}
			} else {
				a = Act{"act": "GCOrphanRev", "k": float64(1 + r.Intn(3))}
			}
		case x < 16 && fails > 0:
			a = Act{"act": []string{"PodUnready", "PodFail"}[r.Intn(2)], "o": o}
			fails--
		case x < 19 && edits > 0:
			switch r.Intn(8) {
			case 0:
				a = Act{"act": "SetReplicas", "r": float64(r.Intn(maxOrd + 1))}
			case 1:
				a = Act{"act": "ScaleInAt", "k": o}
			case 2:
				sl := []interface{}{}
				for q := 0; q <= maxOrd; q++ {
					if r.Intn(3) == 0 {
						sl = append(sl, float64(q))
					}
				}
				a = Act{"act": "SetSlots", "slots": sl}
			case 3, 4:
				a = Act{"act": "EditTemplate", "t": tm[r.Intn(3)]}
			case 5:
				a = Act{"act": "SetPartition", "p": float64(r.Intn(maxOrd + 2))}
			case 6:
				a = Act{"act": "Pause"}
			default:
				a = Act{"act": "DeletePodByHand", "o": o}
			}
			edits--
		default:
			a = Act{"act": "Unpause"}
		}
		b.Acts = append(b.Acts, a)
	}
	return b
}

func desiredContains(r int, slots []int, o int) bool {
	in := map[int]bool{}
	for _, s := range slots {
		in[s] = true
	}
	n := 0
	for i := 0; n < r; i++ {
		if !in[i] {
			if i == o {
				return true
			}
			n++
		}
	}
	return false
}

// guardUser filters user actions that would push the desired set out of the modelled ordinal range or are no-ops.
func (w *World) userGuard(a Act, maxOrd int) bool {
	s := w.e.apiSet(simName)
	if s == nil {
		return false
	}
	rep := int(*s.Spec.Replicas)
	sl := parseSlots(s)
	inRange := func(r int, slots []int) bool {
		nn := 0
		for _, x := range slots {
			if x >= 0 {
				nn++
			}
		}
		// the highest desired ordinal must stay <= maxOrd
		d := 0
		in := map[int]bool{}
		for _, x := range slots {
			in[x] = true
		}
		for i := 0; d < r; i++ {
			if !in[i] {
				d++
				if i > maxOrd {
					return false
				}
			}
		}
		return true
	}
	switch a.name() {
	case "SetReplicas":
		return a.num("r") != rep && inRange(a.num("r"), sl)
	case "SetSlots":
		n := intsOf(a["slots"])
		return fmt.Sprint(n) != fmt.Sprint(sl) && inRange(rep, n)
	case "ScaleInAt":
		return rep > 0 && desiredContains(rep, sl, a.num("k"))
	case "EditTemplate":
		return w.tmplID(s, &s.Spec.Template) != a["t"]
	case "SetPartition":
		ru := s.Spec.UpdateStrategy.RollingUpdate
		return string(s.Spec.UpdateStrategy.Type) == "RollingUpdate" && ru != nil && (ru.Partition == nil || int(*ru.Partition) != a.num("p"))
	case "Pause":
		return s.Annotations[helper.PausedReconcileAnn] != "true"
	case "PodFail":
		return desiredContains(rep, sl, a.num("o")) || s.Spec.PodManagementPolicy == apps.ParallelPodManagement
	}
	return true
}

func cmdSim(args []string) {
	fs := flag.NewFlagSet("sim", flag.ExitOnError)
	in := fs.String("in", "", "ndjson file with behaviours (from TLC); empty = use the random driver")
	nrand := fs.Int("random", 0, "number of random behaviours")
	maxOrd := fs.Int("maxord", 2, "")
	depth := fs.Int("depth", 24, "")
	seed := fs.Int64("seed", 1, "")
	workers := fs.Int("workers", 16, "")
	rounds := fs.Int("rounds", 60, "bound of the fair tail")
	twins := fs.Bool("twins", true, "also run the fault-free and the never-paused twin of every behaviour")
	tail := fs.String("tail", "mixed", "kubelet of the fair tail: fast, slow, or mixed (every other behaviour slow)")
	queue := fs.Bool("queue", false, "reconciles only through the controller's work queue; cache refreshes fire the event handlers")
	claims := fs.Int("claims", 0, "random behaviours: 0 sets without claim templates, 1 with one, 2 mixed")
	migration := fs.Bool("migration", false, "random behaviours start from a freshly migrated set (pods and revisions still owned by the built-in set)")
	out := fs.String("out", "", "")
	fs.Parse(args)
	os.MkdirAll(*out, 0o755)
	var behs []*Behaviour
	if *in != "" {
		f, err := os.Open(*in)
		if err != nil {
			fatal("%v", err)
		}
		sc := bufio.NewScanner(f)
		sc.Buffer(make([]byte, 1<<20), 1<<26)
		n := 0
		for sc.Scan() {
			if strings.TrimSpace(sc.Text()) == "" {
				continue
			}
			b := &Behaviour{}
			if err := json.Unmarshal(sc.Bytes(), b); err != nil {
				fatal("bad behaviour: %v", err)
			}
			n++
			b.ID = fmt.Sprintf("tlc-%d", n)
			behs = append(behs, b)
		}
		f.Close()
	}
	var wg sync.WaitGroup
	nb := len(behs) + *nrand
	counts := make([]int, *workers)
	for k := 0; k < *workers; k++ {
		wg.Add(1)
		go func(k int) {
			defer wg.Done()
			w := NewWorld()
			w.warm(simName)
			w.queueMode = *queue
			bsh := newShard(*out, k)
			defer bsh.close()
			rf, _ := os.Create(filepath.Join(*out, fmt.Sprintf("recs-%02d.ndjson", k)))
			rw := bufio.NewWriterSize(rf, 1<<20)
			defer func() { rw.Flush(); rf.Close() }()
			rnd := rand.New(rand.NewSource(*seed*7919 + int64(k)))
			for i := k; i < nb; i += *workers {
				var b *Behaviour
				if i < len(behs) {
					b = behs[i]
				} else {
					b = w.randomBehaviour(rnd, *maxOrd, *depth, fmt.Sprintf("rnd-%d-%d", *seed, i), *migration, *claims)
					// drop user actions whose guard fails in the real world as the behaviour unfolds: done inside run via 'enabled'
				}
				w.slowTail = *tail == "slow" || (*tail == "mixed" && i%2 == 1)
				o := w.runGuarded(b, "", *rounds, *maxOrd)
				rec := map[string]interface{}{"id": b.ID, "steps": o.Steps, "tail": o.Tail, "final": o.Final,
					"quiet": o.Quiet, "rounds": o.Rounds, "maxord": *maxOrd, "slowTail": w.slowTail}
				hasFault, hasPause := false, false
				for _, a := range b.Acts {
					if a.name() == "Reconcile" {
						if l, _ := a["faults"].([]interface{}); len(l) > 0 {
							hasFault = true
						}
					}
					if a.name() == "Pause" {
						hasPause = true
					}
				}
				rec["twinFaultFree"], rec["twinNoPause"] = map[string]interface{}{}, map[string]interface{}{}
				if *twins && hasFault {
					rec["twinFaultFree"] = w.runGuarded(b, "faults", *rounds, *maxOrd).Final
				}
				if *twins && hasPause {
					rec["twinNoPause"] = w.runGuarded(b, "pause", *rounds, *maxOrd).Final
				}
				bsh.write(rec)
				for _, r := range o.Recs {
					bb, _ := json.Marshal(r)
					rw.Write(bb)
					rw.WriteByte('\n')
					counts[k]++
				}
			}
		}(k)
	}
	wg.Wait()
	tot := 0
	for _, c := range counts {
		tot += c
	}
	mb, _ := json.Marshal(map[string]interface{}{"behaviours": nb, "from_tlc": len(behs), "random": *nrand, "reconciles": tot, "records": nb})
	os.WriteFile(filepath.Join(*out, "meta.json"), mb, 0o644)
	fmt.Println(string(mb))
}

// runGuarded is run with the harness-side guards of user actions applied (an action whose guard fails is skipped and
// logged as not enabled, exactly like an action TLC would not have offered).
func (w *World) runGuarded(b *Behaviour, strip string, rounds, maxOrd int) *simOut {
	w.guardMaxOrd = maxOrd
	return w.run(b, strip, rounds)
}

// gcAll removes every owner reference that points at the (deleted) built-in StatefulSet.
func (w *World) gcAll() {
	e := w.e
	for _, n := range e.api.Names(RPods) {
		p := e.apiPod(n)
		if ref := metav1.GetControllerOf(p); ref != nil && ref.UID == "builtin-uid" {
			p = p.DeepCopy()
			p.OwnerReferences = nil
			e.api.Put(RPods, p)
		}
	}
	for _, n := range e.api.Names(RRev) {
		r := e.apiRev(n)
		if ref := metav1.GetControllerOf(r); ref != nil && ref.UID == "builtin-uid" {
			r = r.DeepCopy()
			r.OwnerReferences = nil
			e.api.Put(RRev, r)
		}
	}
}
