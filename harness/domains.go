package main

// domains.go: the bounded snapshot domains. Each domain is a product of small dimensions;
// a point is a vector of indices. The same domains are defined in spec/MCSnapshot.tla
// (operator InDomain / Init), and the trace spec checks that every recorded snapshot is a
// member, so both sides talk about the same space.

import (
	"fmt"
	"math/rand"
)

type Domain struct {
	Name string
	Dims []int                    // size of every dimension
	Make func(ix []int) *Scenario // point -> scenario
}

func (d *Domain) Size() int64 {
	n := int64(1)
	for _, k := range d.Dims {
		n *= int64(k)
	}
	return n
}

func (d *Domain) Point(i int64) []int {
	ix := make([]int, len(d.Dims))
	for k := len(d.Dims) - 1; k >= 0; k-- {
		ix[k] = int(i % int64(d.Dims[k]))
		i /= int64(d.Dims[k])
	}
	return ix
}

func (d *Domain) Random(r *rand.Rand) []int {
	ix := make([]int, len(d.Dims))
	for k := range ix {
		ix[k] = r.Intn(d.Dims[k])
	}
	return ix
}

var phaseTab = []struct {
	Phase string
	Ready bool
}{{"Pending", false}, {"Running", false}, {"Running", true}, {"Failed", false}, {"Succeeded", false}}

var revTab = []string{"t0.0", "t1.0", "t2.0"}

func stdRevs() []RevSpec {
	return []RevSpec{
		{Name: "t0.0", Tmpl: "t0", Num: 1, Created: 100, Owner: "self"},
		{Name: "t1.0", Tmpl: "t1", Num: 2, Created: 200, Owner: "self"},
		{Name: "t2.0", Tmpl: "t2", Num: 3, Created: 300, Owner: "self"},
	}
}

func maskToSlots(mask, n int) []int {
	s := []int{}
	for b := 0; b < n; b++ {
		if mask&(1<<b) != 0 {
			s = append(s, b)
		}
	}
	return s
}

// decodePod: state 0 = absent; otherwise (phase, term, rev) over nph phases.
func decodePod(ord, st, nph int) (PodSpec, bool) {
	if st == 0 {
		return PodSpec{}, false
	}
	st--
	rev := st % 3
	st /= 3
	term := st%2 == 1
	st /= 2
	ph := phaseTab[st%nph]
	return PodSpec{Ord: ord, Phase: ph.Phase, Ready: ph.Ready, Term: term, Rev: revTab[rev], Owner: "self"}, true
}

// censusStatus fills the cached status with the truth about the pods (as a previous
// successful reconcile would have left it).
func censusStatus(s *SetSpec, pods []PodSpec) {
	s.ObsGen = s.Gen
	s.StReplicas, s.StReady, s.StCurrent, s.StUpdated = 0, 0, 0, 0
	for _, p := range pods {
		s.StReplicas++
		if p.Phase == "Running" && p.Ready {
			s.StReady++
		}
		if !p.Term && p.Rev == s.CurRev {
			s.StCurrent++
		}
		if !p.Term && p.Rev == s.UpdRev {
			s.StUpdated++
		}
	}
}

// PodsDomain: the main per-reconcile domain (C03, C04, C05, C07, C12, C14).
//
//	dims: replicas, slot mask, policy, strategy shape, sameRev, statusMode, deleting, pod state per ordinal
func PodsDomain(maxOrd, maxRep, nph int, withDeleting bool) *Domain {
	return PodsDomainAt(0, maxOrd, maxRep, nph, withDeleting)
}

// PodsDomainAt: the same domain moved up to the ordinals base..base+maxOrd (the slots below base are all deleted), so
// that with base 8 the ordinals cross from one digit to two - where the order of names is not the order of ordinals.
func PodsDomainAt(base, maxOrd, maxRep, nph int, withDeleting bool) *Domain {
	nOrd := maxOrd + 1
	nStrat := nOrd + 1 + 2 + 2 // RU+block part 0..nOrd ; RU without block ; OnDelete ; OnDelete with a left-over block (partition 0, 1)
	nPod := 1 + nph*2*3
	nDel := 1
	if withDeleting {
		nDel = 2
	}
	dims := []int{maxRep + 1, 1 << nOrd, 2, nStrat, 2, 2, nDel}
	for i := 0; i < nOrd; i++ {
		dims = append(dims, nPod)
	}
	dims = append(dims, 3) // the set's template: the newest revision's (t2), or an earlier one (t1, t0): a roll-back over one / two revisions
	d := &Domain{Name: fmt.Sprintf("pods(ord<=%d,rep<=%d,phases=%d,deleting=%v)", maxOrd, maxRep, nph, withDeleting), Dims: dims}
	if base > 0 {
		d.Name = fmt.Sprintf("pods(ord %d..%d,rep<=%d,phases=%d,deleting=%v)", base, base+maxOrd, maxRep, nph, withDeleting)
	}
	low := []int{}
	for b := 0; b < base; b++ {
		low = append(low, b)
	}
	d.Make = func(ix []int) *Scenario {
		sc := &Scenario{Dom: ix}
		s := &sc.Set
		s.Name = "foo"
		s.Replicas = int32(ix[0])
		sl := append([]int{}, low...)
		for _, b := range maskToSlots(ix[1], nOrd) {
			sl = append(sl, base+b)
		}
		s.SlotsAnn = slotsAnn(sl)
		s.Policy = []string{"OrderedReady", "Parallel"}[ix[2]]
		switch {
		case ix[3] <= nOrd:
			s.Strat, s.RuBlock, s.PartPresent, s.Part = "RollingUpdate", true, true, int32(ix[3])
			if ix[3] > 0 {
				s.Part += int32(base)
			}
		case ix[3] == nOrd+1:
			s.Strat = "RollingUpdate"
		case ix[3] == nOrd+2:
			s.Strat = "OnDelete"
		default: // what a merge patch of only .type leaves behind on a defaulted object
			s.Strat, s.RuBlock, s.PartPresent, s.Part = "OnDelete", true, true, int32(ix[3]-nOrd-3)
		}
		s.Tmpl, s.UpdRev, s.CurRev = "t2", "t2.0", "t1.0"
		if ix[4] == 1 {
			s.CurRev = "t2.0"
		}
		s.HistLimit, s.Gen = 10, 2
		s.Deleting = ix[6] == 1
		sc.Revs = stdRevs()
		for o := 0; o < nOrd; o++ {
			if p, ok := decodePod(base+o, ix[7+o], nph); ok {
				sc.Pods = append(sc.Pods, p)
			}
		}
		if ix[5] == 1 {
			censusStatus(s, sc.Pods)
		} else {
			s.ObsGen = 1
		}
		s.Tmpl = []string{"t2", "t1", "t0"}[ix[7+nOrd]] // (the recorded update revision stays t2.0: the edit has not been reconciled yet)
		return sc
	}
	return d
}

// StalePodsDomain: the pods domain seen through a pod cache that is behind - per ordinal the cached pod is still in
// the API (0), is gone from it (1), or was replaced by a new incarnation of the same name (2).
func StalePodsDomain(maxOrd, maxRep, nph int) *Domain {
	base := PodsDomain(maxOrd, maxRep, nph, false)
	nb := len(base.Dims)
	dims := append([]int{}, base.Dims...)
	for o := 0; o <= maxOrd; o++ {
		dims = append(dims, 3)
	}
	d := &Domain{Name: "stale-" + base.Name, Dims: dims}
	d.Make = func(ix []int) *Scenario {
		sc := base.Make(ix[:nb])
		sc.Dom = ix
		for o := 0; o <= maxOrd; o++ {
			switch ix[nb+o] {
			case 1:
				sc.ApiGone = append(sc.ApiGone, o)
			case 2:
				sc.ApiReborn = append(sc.ApiReborn, o)
			}
		}
		return sc
	}
	return d
}

// OddSlotsPodsDomain: the pods domain with a delete-slots annotation that also lists slots the controller must ignore: a
// negative one (0: none, 1: -1, 2: -3 and -1) and one far beyond the range (0: none, 1: 50).
func OddSlotsPodsDomain(maxOrd, maxRep, nph int) *Domain {
	base := PodsDomain(maxOrd, maxRep, nph, false)
	nb := len(base.Dims)
	d := &Domain{Name: "oddslots-" + base.Name, Dims: append(append([]int{}, base.Dims...), 4, 2)}
	d.Make = func(ix []int) *Scenario {
		sc := base.Make(ix[:nb])
		sc.Dom = ix
		sl := []int{}
		switch ix[nb] {
		case 1:
			sl = append(sl, -1)
		case 2:
			sl = append(sl, -3, -1)
		}
		sl = append(sl, maskToSlots(ix[1], maxOrd+1)...)
		if ix[nb+1] == 1 {
			sl = append(sl, 50)
		}
		sc.Set.SlotsAnn = slotsAnn(sl)
		if ix[nb] == 3 {
			// a list with one element of the wrong type: the whole annotation is to be ignored, not half of it
			raw := "[\"2\""
			for _, x := range sl {
				raw += fmt.Sprintf(", %d", x)
			}
			raw += "]"
			sc.Set.SlotsAnn = &raw
		}
		return sc
	}
	return d
}
