package main

// migrate.go (C18, data part): for fixed and randomly generated valid pod templates, the revision data the Advanced
// controller records for a set converted from a built-in StatefulSet is compared byte for byte with what a reference
// encoder built on client-go's apps/v1 scheme (the patch shape of the upstream controller) produces for the built-in
// object, and a revision made by that reference encoder is fed to the real controller after a migration.

import (
	"bytes"
	"encoding/json"
	"flag"
	"fmt"
	"math/rand"
	"os"
	"sync"

	kubeapps "k8s.io/api/apps/v1"
	v1 "k8s.io/api/core/v1"
	apiequality "k8s.io/apimachinery/pkg/api/equality"
	"k8s.io/apimachinery/pkg/api/resource"
	metav1 "k8s.io/apimachinery/pkg/apis/meta/v1"
	"k8s.io/apimachinery/pkg/runtime"
	"k8s.io/apimachinery/pkg/util/intstr"
	kscheme "k8s.io/client-go/kubernetes/scheme"

	"github.com/pingcap/advanced-statefulset/client/apis/apps/v1/helper"
	"github.com/pingcap/advanced-statefulset/pkg/controller/statefulset"
	k8s "github.com/pingcap/advanced-statefulset/pkg/third_party/k8s"
)

var refCodec = kscheme.Codecs.LegacyCodec(kubeapps.SchemeGroupVersion)

// refPatch: what the built-in controller records (getPatch of the upstream StatefulSet controller, on apps/v1).
func refPatch(sts *kubeapps.StatefulSet) []byte {
	str, err := runtime.Encode(refCodec, sts)
	if err != nil {
		panic(err)
	}
	var raw map[string]interface{}
	json.Unmarshal(str, &raw)
	spec := raw["spec"].(map[string]interface{})
	template := spec["template"].(map[string]interface{})
	template["$patch"] = "replace"
	b, _ := json.Marshal(map[string]interface{}{"spec": map[string]interface{}{"template": template}})
	return b
}

// floatJSON: the object's JSON after a trip through untyped decoding (numbers become float64), as in the controllers' getPatch.
func floatJSON(o interface{}) string {
	b, _ := json.Marshal(o)
	var m interface{}
	json.Unmarshal(b, &m)
	b, _ = json.Marshal(m)
	return string(b)
}

func i64(v int64) *int64 { return &v }
func i32(v int32) *int32 { return &v }
func bp(v bool) *bool    { return &v }

func randStr(r *rand.Rand, p string) string { return fmt.Sprintf("%s-%d", p, r.Intn(1000)) }

// randText: free text as it appears in commands, arguments, environment values and annotations - including the characters
// JSON encoders may or may not escape (&, <, >, quotes, backslashes, non-ASCII, control characters)
var textBits = []string{"a && b", "x > /dev/null", "<tag>", "it's", "say \"hi\"", "back\\slash", "tab\there", "line1\nline2", "ünïcödé", "日本語", "\u2028", "100%", "a=b&c=d", "{}", "[1,2]", "plain"}

func randText(r *rand.Rand) string {
	n := 1 + r.Intn(3)
	out := ""
	for i := 0; i < n; i++ {
		if i > 0 {
			out += " "
		}
		out += textBits[r.Intn(len(textBits))]
	}
	return out
}

// randTemplate: a random but valid PodTemplateSpec (integers within the ranges pod validation accepts).
func randTemplate(r *rand.Rand) v1.PodTemplateSpec {
	t := v1.PodTemplateSpec{ObjectMeta: metav1.ObjectMeta{Labels: map[string]string{"app": "web"}}}
	for i := 0; i < r.Intn(3); i++ {
		t.Labels[randStr(r, "l")] = randStr(r, "v")
	}
	if r.Intn(2) == 0 {
		t.Annotations = map[string]string{}
		for i := 0; i < r.Intn(3); i++ {
			t.Annotations[randStr(r, "a")] = randText(r)
		}
	}
	mkC := func(name string) v1.Container {
		c := v1.Container{Name: name, Image: randStr(r, "img") + []string{":" + fmt.Sprint(r.Intn(9)), ":latest", "", ":" + fmt.Sprint(r.Intn(9))}[r.Intn(4)]}
		for i := 0; i < r.Intn(3); i++ {
			c.Env = append(c.Env, v1.EnvVar{Name: fmt.Sprintf("E%d", i), Value: randText(r)})
		}
		if r.Intn(3) == 0 {
			c.Env = append(c.Env, v1.EnvVar{Name: "POD", ValueFrom: &v1.EnvVarSource{FieldRef: &v1.ObjectFieldSelector{FieldPath: "metadata.name"}}})
		}
		for i := 0; i < r.Intn(3); i++ {
			c.Ports = append(c.Ports, v1.ContainerPort{Name: fmt.Sprintf("p%d", i), ContainerPort: int32(1 + r.Intn(65535)), Protocol: []v1.Protocol{"TCP", "UDP", ""}[r.Intn(3)]})
		}
		if r.Intn(2) == 0 {
			c.Resources.Requests = v1.ResourceList{v1.ResourceCPU: resource.MustParse(fmt.Sprintf("%dm", 1+r.Intn(4000))), v1.ResourceMemory: resource.MustParse(fmt.Sprintf("%dMi", 1+r.Intn(8192)))}
			if r.Intn(2) == 0 {
				c.Resources.Limits = v1.ResourceList{v1.ResourceMemory: resource.MustParse(fmt.Sprintf("%dGi", 1+r.Intn(16)))}
			}
		}
		if r.Intn(3) == 0 {
			c.Command = []string{"/bin/sh", "-c", randText(r)}
		}
		if r.Intn(3) == 0 {
			c.Args = []string{}
		}
		if r.Intn(3) == 0 {
			c.Args = []string{randText(r), randText(r)}
		}
		if r.Intn(3) == 0 {
			c.ReadinessProbe = &v1.Probe{ProbeHandler: v1.ProbeHandler{HTTPGet: &v1.HTTPGetAction{Path: "/h", Port: intstr.FromInt(1 + r.Intn(65535))}},
				InitialDelaySeconds: int32(r.Intn(100)), PeriodSeconds: int32(1 + r.Intn(60)), TimeoutSeconds: int32(1 + r.Intn(30))}
		}
		if r.Intn(4) == 0 {
			c.LivenessProbe = &v1.Probe{ProbeHandler: v1.ProbeHandler{TCPSocket: &v1.TCPSocketAction{Port: intstr.FromString("p0")}}}
		}
		if r.Intn(4) == 0 {
			c.SecurityContext = &v1.SecurityContext{RunAsUser: i64(int64(r.Intn(65535))), ReadOnlyRootFilesystem: bp(r.Intn(2) == 0)}
		}
		if r.Intn(3) == 0 {
			c.VolumeMounts = []v1.VolumeMount{{Name: "scratch", MountPath: "/scratch", ReadOnly: r.Intn(2) == 0}}
		}
		c.ImagePullPolicy = []v1.PullPolicy{"", v1.PullAlways, v1.PullIfNotPresent, v1.PullNever}[r.Intn(4)]
		return c
	}
	for i := 0; i <= r.Intn(3); i++ {
		t.Spec.Containers = append(t.Spec.Containers, mkC(fmt.Sprintf("c%d", i)))
	}
	for i := 0; i < r.Intn(2); i++ {
		t.Spec.InitContainers = append(t.Spec.InitContainers, mkC(fmt.Sprintf("init%d", i)))
	}
	t.Spec.Volumes = []v1.Volume{{Name: "scratch", VolumeSource: v1.VolumeSource{EmptyDir: &v1.EmptyDirVolumeSource{}}}}
	if r.Intn(3) == 0 {
		t.Spec.Volumes = append(t.Spec.Volumes, v1.Volume{Name: "cfg", VolumeSource: v1.VolumeSource{ConfigMap: &v1.ConfigMapVolumeSource{
			LocalObjectReference: v1.LocalObjectReference{Name: "cm"}, DefaultMode: i32(int32(r.Intn(0o777 + 1)))}}})
	}
	if r.Intn(2) == 0 {
		t.Spec.TerminationGracePeriodSeconds = i64(int64(r.Intn(600)))
	}
	if r.Intn(6) == 0 {
		// integers beyond 2^53: the built-in controller's patch went through float64 and recorded the rounded value
		t.Spec.TerminationGracePeriodSeconds = i64([]int64{9999999999999999, 1<<53 + 1, 1<<62 + 12345}[r.Intn(3)])
	}
	if r.Intn(3) == 0 {
		t.Spec.NodeSelector = map[string]string{"disk": "ssd"}
	}
	if r.Intn(3) == 0 {
		t.Spec.Tolerations = []v1.Toleration{{Key: "k", Operator: v1.TolerationOpExists, Effect: v1.TaintEffectNoSchedule, TolerationSeconds: nil}}
		if r.Intn(3) == 0 {
			t.Spec.Tolerations = append(t.Spec.Tolerations, v1.Toleration{Key: "gone", Operator: v1.TolerationOpExists, Effect: v1.TaintEffectNoExecute,
				TolerationSeconds: i64([]int64{300, 1<<53 + 1}[r.Intn(2)])})
		}
	}
	if r.Intn(3) == 0 {
		t.Spec.SecurityContext = &v1.PodSecurityContext{FSGroup: i64(int64(r.Intn(65535))), RunAsNonRoot: bp(true)}
	}
	if r.Intn(4) == 0 {
		t.Spec.Affinity = &v1.Affinity{PodAntiAffinity: &v1.PodAntiAffinity{RequiredDuringSchedulingIgnoredDuringExecution: []v1.PodAffinityTerm{{
			TopologyKey: "kubernetes.io/hostname", LabelSelector: &metav1.LabelSelector{MatchLabels: map[string]string{"app": "web"}}}}}}
	}
	t.Spec.RestartPolicy = []v1.RestartPolicy{"", v1.RestartPolicyAlways}[r.Intn(2)]
	t.Spec.DNSPolicy = []v1.DNSPolicy{"", v1.DNSClusterFirst, v1.DNSDefault}[r.Intn(3)]
	t.Spec.ServiceAccountName = []string{"", "sa"}[r.Intn(2)]
	if r.Intn(5) == 0 {
		t.Spec.PriorityClassName = "high"
		t.Spec.Priority = i32(int32(r.Intn(1000000)))
	}
	if r.Intn(5) == 0 {
		t.Spec.HostNetwork = true
	}
	if r.Intn(6) == 0 {
		t.CreationTimestamp = metav1.Time{}
	}
	return t
}

func (w *World) byteCase(r *rand.Rand, id int, defaulted bool) map[string]interface{} {
	e := w.e
	e.Reset()
	rep := int32(1 + r.Intn(3))
	sts := &kubeapps.StatefulSet{
		TypeMeta:   metav1.TypeMeta{Kind: "StatefulSet", APIVersion: "apps/v1"},
		ObjectMeta: metav1.ObjectMeta{Name: "web", Namespace: NS, UID: "builtin-uid", Generation: 1},
		Spec: kubeapps.StatefulSetSpec{Replicas: &rep, ServiceName: "svc", Selector: &metav1.LabelSelector{MatchLabels: map[string]string{"app": "web"}},
			Template: randTemplate(r), RevisionHistoryLimit: i32(10),
			UpdateStrategy:      kubeapps.StatefulSetUpdateStrategy{Type: kubeapps.RollingUpdateStatefulSetStrategyType, RollingUpdate: &kubeapps.RollingUpdateStatefulSetStrategy{Partition: i32(0)}},
			PodManagementPolicy: kubeapps.OrderedReadyPodManagement},
	}
	if defaulted {
		kscheme.Scheme.Default(sts) // what the API server stores for a built-in StatefulSet
	}
	want := refPatch(sts)
	// the revision the built-in controller holds for it
	cc := int32(0)
	brev, _ := k8s.NewControllerRevision(sts, kubeapps.SchemeGroupVersion.WithKind("StatefulSet"), sts.Spec.Template.Labels, runtime.RawExtension{Raw: want}, 1, &cc)
	brev.Namespace = NS
	brev.OwnerReferences = ownerRefs("builtin", "web")
	brev.CreationTimestamp = metav1.Unix(100, 0)
	// after helper.Upgrade: selector labels removed, marker added; the GC has orphaned it
	delete(brev.Labels, "app")
	brev.Labels[helper.UpgradeToAdvancedStatefulSetAnn] = "web"
	brev.OwnerReferences = nil
	asts, err := helper.FromBuiltinStatefulSet(sts)
	if err != nil {
		return map[string]interface{}{"kind": "bytes", "id": id, "same": false, "err": err.Error()}
	}
	asts.UID = setUID
	asts.Status.CurrentRevision, asts.Status.UpdateRevision = brev.Name, brev.Name
	asts.Status.CollisionCount = &cc
	e.api.Put(RSet, asts.DeepCopy())
	e.api.Put(RRev, brev.DeepCopy())
	e.CacheSync(RSet, false)
	e.api.ResetLog()
	res, det := e.Sync("web")
	created, podDeletes := 0, 0
	var newRev *kubeapps.ControllerRevision
	for _, c := range e.api.calls {
		if c.Res == RRev && c.Verb == "create" && c.Result == "ok" {
			created++
			newRev, _ = c.obj.(*kubeapps.ControllerRevision)
		}
		if c.Res == RPods && c.Verb == "delete" {
			podDeletes++
		}
	}
	got := e.apiRev(brev.Name)
	adopted := got != nil && ownerClass(got, e.apiSet("web")) == "self"
	st := e.apiSet("web").Status
	same := true
	if newRev != nil {
		same = bytes.Equal(newRev.Data.Raw, want)
	}
	match, _ := statefulset.Match(asts, brev)
	applyOK := false
	if restored, err := statefulset.ApplyRevision(asts, brev); err == nil {
		applyOK = apiequality.Semantic.DeepEqual(restored.Spec.Template, asts.Spec.Template) ||
			// integers beyond 2^53 are recorded as the built-in controller recorded them: rounded through float64 (the price
			// of byte identity with its revisions); the comparison is then made on what a revision can hold
			floatJSON(restored.Spec.Template) == floatJSON(asts.Spec.Template)
	}
	rec := map[string]interface{}{"kind": "bytes", "id": id, "defaulted": defaulted, "res": res, "same": same && match, "created": created, "podDeletes": podDeletes,
		"adopted": adopted, "updIsBuiltin": st.UpdateRevision == brev.Name, "applyOK": applyOK, "containers": len(sts.Spec.Template.Spec.Containers)}
	if det != "" {
		rec["detail"] = det
	}
	if !(same && match) && newRev != nil {
		rec["got"], rec["want"] = string(newRev.Data.Raw), string(want)
	}
	return rec
}

func cmdMigrate(args []string) {
	fs := flag.NewFlagSet("migrate", flag.ExitOnError)
	n := fs.Int("n", 400, "random templates")
	seed := fs.Int64("seed", 1, "")
	workers := fs.Int("workers", 8, "")
	out := fs.String("out", "", "")
	one := fs.String("case", "", "replay: JSON {seed, id, defaulted}")
	fs.Parse(args)
	os.MkdirAll(*out, 0o755)
	if *one != "" {
		var c struct {
			Seed      int64
			ID        int
			Defaulted bool
		}
		json.Unmarshal([]byte(*one), &c)
		w := NewWorld()
		sh := newShard(*out, 0)
		rec := w.byteCase(rand.New(rand.NewSource(c.Seed*100003+int64(c.ID))), c.ID, c.Defaulted)
		rec["seed"] = c.Seed
		sh.write(rec)
		sh.close()
		return
	}
	var wg sync.WaitGroup
	for k := 0; k < *workers; k++ {
		wg.Add(1)
		go func(k int) {
			defer wg.Done()
			w := NewWorld()
			sh := newShard(*out, k)
			defer sh.close()
			for i := k; i < *n; i += *workers {
				rec := w.byteCase(rand.New(rand.NewSource(*seed*100003+int64(i))), i, i%2 == 0)
				rec["seed"] = *seed
				sh.write(rec)
			}
		}(k)
	}
	wg.Wait()
	b, _ := json.Marshal(map[string]interface{}{"records": *n, "domain": "random valid pod templates (seeded), half of them with API-server defaulting applied"})
	os.WriteFile(*out+"/meta.json", b, 0o644)
	fmt.Println(string(b))
}
