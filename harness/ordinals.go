package main

// ordinals.go (C01): the slot arithmetic helpers and the controller's own use of them,
// exercised on an enumerated domain of (replicas, annotation value) pairs.

import (
	"encoding/json"
	"flag"
	"fmt"
	"math"
	"math/rand"
	"os"
	"sort"
	"strings"
	"sync"

	metav1 "k8s.io/apimachinery/pkg/apis/meta/v1"
	"k8s.io/apimachinery/pkg/util/sets"

	"github.com/pingcap/advanced-statefulset/client/apis/apps/v1/helper"
)

type ordCase struct {
	R    int32
	Ann  *string // nil = annotation absent
	Cls  string  // absent | empty | malformed | list
	Want []int   // the set the annotation denotes (harness' own reading), sorted
}

func sortedInts(s sets.Int32) []int {
	out := []int{}
	for _, x := range s.List() {
		out = append(out, int(x))
	}
	sort.Ints(out)
	return out
}

func listCase(r int32, vals []int64, shuffleDup bool, rnd *rand.Rand) ordCase {
	seen := map[int64]bool{}
	want := []int{}
	for _, v := range vals {
		if !seen[v] {
			seen[v] = true
			want = append(want, int(v))
		}
	}
	sort.Ints(want)
	enc := append([]int64{}, vals...)
	if shuffleDup && len(enc) > 0 {
		enc = append(enc, enc[rnd.Intn(len(enc))]) // a duplicate
		rnd.Shuffle(len(enc), func(i, j int) { enc[i], enc[j] = enc[j], enc[i] })
	}
	b, _ := json.Marshal(enc)
	s := string(b)
	return ordCase{R: r, Ann: &s, Cls: "list", Want: want}
}

func strp(s string) *string { return &s }

func ordinalCases(maxR int32, lo, hi int, nrand int, seed int64) []ordCase {
	rnd := rand.New(rand.NewSource(seed))
	var cases []ordCase
	n := hi - lo + 1
	for r := int32(0); r <= maxR; r++ {
		// classes that denote the empty set
		cases = append(cases, ordCase{R: r, Ann: nil, Cls: "absent", Want: []int{}})
		for _, s := range []string{"", "[]", "null", "[1,2", "{}", "\"[1]\"", "[1.5]", "[\"1\"]", "[1,true]", "1", "[2147483648]", "[1,-2147483649]", "[1e3.2]", " ", "[[1]]"} {
			cls := "malformed"
			if s == "[]" || s == "null" {
				cls = "empty"
			}
			cases = append(cases, ordCase{R: r, Ann: strp(s), Cls: cls, Want: []int{}})
		}
		// exhaustive subsets of lo..hi
		for mask := 0; mask < 1<<n; mask++ {
			var vals []int64
			for b := 0; b < n; b++ {
				if mask&(1<<b) != 0 {
					vals = append(vals, int64(lo+b))
				}
			}
			cases = append(cases, listCase(r, vals, mask%7 == 3, rnd))
		}
		// int32 extremes and random int32 sets
		ext := []int64{math.MaxInt32, math.MinInt32, math.MaxInt32 - 1, math.MinInt32 + 1, 0, 1, int64(r), int64(r) - 1, int64(r) + 1}
		for k := 0; k < nrand; k++ {
			var vals []int64
			m := 1 + rnd.Intn(5)
			for j := 0; j < m; j++ {
				switch rnd.Intn(3) {
				case 0:
					vals = append(vals, ext[rnd.Intn(len(ext))])
				case 1:
					vals = append(vals, int64(rnd.Intn(12))-3)
				default:
					vals = append(vals, int64(int32(rnd.Uint32())))
				}
			}
			cases = append(cases, listCase(r, vals, rnd.Intn(2) == 0, rnd))
		}
		// whitespace / formatting variants of a valid list
		cases = append(cases, ordCase{R: r, Ann: strp(" [ 1 ,\n 3 ] "), Cls: "list", Want: []int{1, 3}})
		cases = append(cases, ordCase{R: r, Ann: strp("[0,0,0]"), Cls: "list", Want: []int{0}})
		cases = append(cases, ordCase{R: r, Ann: strp("[3,1,2,1]"), Cls: "list", Want: []int{1, 2, 3}})
		cases = append(cases, ordCase{R: r, Ann: strp("[-0]"), Cls: "list", Want: []int{0}})
		cases = append(cases, ordCase{R: r, Ann: strp("[1e0]"), Cls: "malformed", Want: []int{}})
	}
	return cases
}

type annObj struct{ metav1.ObjectMeta }

func (w *World) runOrdCase(c ordCase, withController bool) map[string]interface{} {
	obj := &metav1.ObjectMeta{Name: "foo"}
	if c.Ann != nil {
		obj.Annotations = map[string]string{helper.DeleteSlotsAnn: *c.Ann, "other": "kept"}
	}
	rec := map[string]interface{}{"r": int(c.R), "cls": c.Cls, "want": c.Want}
	if c.Ann != nil {
		rec["ann"] = *c.Ann
	} else {
		rec["ann"] = "<absent>"
	}
	func() {
		defer func() {
			if p := recover(); p != nil {
				rec["panic"] = fmt.Sprint(p)
			}
		}()
		ds := helper.GetDeleteSlots(obj)
		rec["slots"] = sortedInts(ds)
		bound, eff := helper.GetMaxReplicaCountAndDeleteSlots(c.R, ds)
		rec["bound"] = int(bound)
		rec["eff"] = sortedInts(eff)
		rec["inputIntact"] = len(sortedInts(ds)) == len(sortedInts(helper.GetDeleteSlots(obj))) && ds.Equal(helper.GetDeleteSlots(obj))
		rec["ords"] = sortedInts(helper.GetPodOrdinals(c.R, obj))
		rec["ords2"] = sortedInts(helper.GetPodOrdinalsFromReplicasAndDeleteSlots(c.R, helper.GetDeleteSlots(obj)))
		rec["max"] = int(helper.GetMaxPodOrdinal(c.R, obj))
		rec["min"] = int(helper.GetMinPodOrdinal(c.R, obj))
	}()
	if _, ok := rec["panic"]; !ok {
		rec["panic"] = ""
	}
	created := []int{}
	createdOrd := []int{}
	ctl := false
	if withController {
		ctl = true
		for _, pol := range []string{"Parallel", "OrderedReady"} {
			sc := &Scenario{}
			sc.Set = SetSpec{Name: "foo", Replicas: c.R, SlotsAnn: c.Ann, Policy: pol, Strat: "RollingUpdate", RuBlock: true, PartPresent: true,
				Tmpl: "t2", HistLimit: 10, Gen: 1, UpdRev: "t2.0", CurRev: "t2.0"}
			sc.Revs = stdRevs()
			w.Load(sc)
			seen := map[int]bool{}
			rounds := 1
			if pol == "OrderedReady" {
				rounds = int(c.R) + 3
			}
			for k := 0; k < rounds; k++ {
				w.e.api.ResetLogKeepFaults()
				res, _ := w.e.Sync("foo")
				if res == "panic" {
					rec["panic"] = "controller panic"
				}
				for _, cl := range w.e.api.calls {
					if cl.Verb == "create" && cl.Res == RPods && cl.Result == "ok" {
						_, o := parentAndOrdinal(cl.Name)
						seen[o] = true
					}
				}
				w.e.KubeletAll()
				w.e.CacheSyncAll(false)
			}
			out := []int{}
			for o := range seen {
				out = append(out, o)
			}
			sort.Ints(out)
			if pol == "Parallel" {
				created = out
			} else {
				createdOrd = out
			}
		}
	}
	rec["ctl"] = ctl
	rec["created"] = created
	rec["createdOrdered"] = createdOrd
	return rec
}

func cmdOrdinals(args []string) {
	fs := flag.NewFlagSet("ordinals", flag.ExitOnError)
	maxR := fs.Int("maxr", 4, "")
	lo := fs.Int("lo", -2, "")
	hi := fs.Int("hi", 6, "")
	nrand := fs.Int("nrand", 40, "")
	ctlEvery := fs.Int("ctl-every", 4, "run the controller on every k-th case")
	seed := fs.Int64("seed", 1, "")
	workers := fs.Int("workers", 16, "")
	out := fs.String("out", "", "")
	one := fs.String("case", "", "replay one case: JSON {r, ann}")
	fs.Parse(args)
	os.MkdirAll(*out, 0o755)
	if *one != "" {
		var c struct {
			R   int32
			Ann string
		}
		json.Unmarshal([]byte(*one), &c)
		oc := ordCase{R: c.R, Cls: "replay", Want: []int{}}
		if c.Ann != "<absent>" {
			oc.Ann = &c.Ann
			var raw []int32
			if json.Unmarshal([]byte(c.Ann), &raw) == nil {
				s := sets.NewInt32(raw...)
				oc.Want = sortedInts(s)
			}
		}
		w := NewWorld()
		w.warm("foo")
		sh := newShard(*out, 0)
		sh.write(w.runOrdCase(oc, true))
		sh.close()
		return
	}
	cases := ordinalCases(int32(*maxR), *lo, *hi, *nrand, *seed)
	var wg sync.WaitGroup
	for k := 0; k < *workers; k++ {
		wg.Add(1)
		go func(k int) {
			defer wg.Done()
			w := NewWorld()
			w.warm("foo")
			sh := newShard(*out, k)
			defer sh.close()
			for i := k; i < len(cases); i += *workers {
				c := cases[i]
				big := false
				for _, x := range c.Want {
					if x > 64 || x < -64 {
						big = true
					}
				}
				sh.write(w.runOrdCase(c, (i / *workers)%*ctlEvery == 0 && !big && !strings.Contains(c.Cls, "replay")))
			}
		}(k)
	}
	wg.Wait()
	b, _ := json.Marshal(map[string]interface{}{"domain": fmt.Sprintf("ordinals(r<=%d, slots within %d..%d, +%d random int32 sets per r)", *maxR, *lo, *hi, *nrand),
		"records": len(cases), "exhaustive": true})
	os.WriteFile(*out+"/meta.json", b, 0o644)
	fmt.Println(string(b))
}
