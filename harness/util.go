package main

import "encoding/json"

func jsonMarshal(v interface{}) ([]byte, error) { return json.Marshal(v) }
