package main

// watch.go (C20): the real hijacked watch (NewHijackClient(...).AppsV1().StatefulSets(ns).Watch) driven by enumerated
// schedules of source sends, consumer receives, Stop calls and source close. The source is a channel-backed watch
// installed through a watch reactor of the generated fake clientset; every step is a rendezvous with a deadline.

import (
	"bytes"
	"context"
	"encoding/json"
	"flag"
	"fmt"
	"os"
	"os/exec"
	"runtime"
	"strings"
	"sync"
	"sync/atomic"
	"time"

	kubeapps "k8s.io/api/apps/v1"
	metav1 "k8s.io/apimachinery/pkg/apis/meta/v1"
	utilruntime "k8s.io/apimachinery/pkg/util/runtime"
	"k8s.io/apimachinery/pkg/watch"
	kubefake "k8s.io/client-go/kubernetes/fake"
	core "k8s.io/client-go/testing"

	apps "github.com/pingcap/advanced-statefulset/client/apis/apps/v1"
	"github.com/pingcap/advanced-statefulset/client/apis/apps/v1/helper"
	pcfake "github.com/pingcap/advanced-statefulset/client/client/clientset/versioned/fake"
)

type srcWatch struct {
	ch    chan watch.Event
	done  chan struct{}
	once  sync.Once
	stops int32
}

func (s *srcWatch) Stop() {
	atomic.AddInt32(&s.stops, 1)
	s.once.Do(func() { close(s.done) })
}
func (s *srcWatch) ResultChan() <-chan watch.Event { return s.ch }

var watchPanics int32

// catchRelayPanics: a panic of the relay goroutine would take the process down; record it instead. Only the watch
// driver does this - everywhere else apimachinery's crash handling must stay as in production (a simulated process
// death travels as a panic through retry loops that call HandleCrash).
func catchRelayPanics() {
	utilruntime.ReallyCrash = false
	utilruntime.PanicHandlers = append(utilruntime.PanicHandlers, func(interface{}) { atomic.AddInt32(&watchPanics, 1) })
}

const stepWait = 150 * time.Millisecond

// runWatch executes one schedule: ops are "send:<Kind>", "recv", "stop", "close".
func runWatch(ops []string) map[string]interface{} {
	pc := pcfake.NewSimpleClientset()
	src := &srcWatch{ch: make(chan watch.Event), done: make(chan struct{})}
	pc.PrependWatchReactor("statefulsets", func(a core.Action) (bool, watch.Interface, error) { return true, src, nil })
	hc := helper.NewHijackClient(kubefake.NewSimpleClientset(), pc)
	before := atomic.LoadInt32(&watchPanics)
	w, err := hc.AppsV1().StatefulSets(NS).Watch(context.TODO(), metav1.ListOptions{})
	if err != nil {
		return map[string]interface{}{"ops": ops, "err": err.Error()}
	}
	closed := false   // source channel closed by us
	srcEnded := false // we closed the source stream
	outcomes := [][]interface{}{}
	sentObjs := map[string]string{} // what the source sent, as JSON without apiVersion/kind
	nsent := 0
	closeSrc := func() {
		if !closed {
			closed = true
			close(src.ch)
		}
	}
	for _, op := range ops {
		switch {
		case strings.HasPrefix(op, "send:"):
			kind := op[5:]
			// the source reacts to Stop by closing its channel
			select {
			case <-src.done:
				closeSrc()
			default:
			}
			if closed {
				outcomes = append(outcomes, []interface{}{"closed", "", true})
				continue
			}
			nsent++
			ev := watch.Event{Type: watch.EventType(strings.ToUpper(kind))}
			name := fmt.Sprintf("obj-%d", nsent)
			switch kind {
			case "Error":
				ev.Object = &metav1.Status{Status: metav1.StatusFailure, Message: name, Reason: metav1.StatusReasonExpired, Code: 410}
			case "Bookmark":
				ev.Object = &apps.StatefulSet{ObjectMeta: metav1.ObjectMeta{ResourceVersion: name}}
			default:
				r := int32(nsent)
				o := &apps.StatefulSet{TypeMeta: metav1.TypeMeta{Kind: "StatefulSet", APIVersion: "apps.pingcap.com/v1"},
					ObjectMeta: metav1.ObjectMeta{Name: name, Namespace: NS, Labels: map[string]string{"k": name}}, Spec: apps.StatefulSetSpec{Replicas: &r, ServiceName: name}}
				if nsent%2 == 1 {
					// odd events carry more than even ones (slots, a partition, status counters): whatever a later, sparser
					// object lacks must be absent from what is relayed for it
					part := int32(nsent)
					o.Annotations = map[string]string{helper.DeleteSlotsAnn: "[1]"}
					o.Spec.UpdateStrategy = apps.StatefulSetUpdateStrategy{Type: apps.RollingUpdateStatefulSetStrategyType,
						RollingUpdate: &apps.RollingUpdateStatefulSetStrategy{Partition: &part}}
					o.Status.ReadyReplicas, o.Status.Replicas = 2, 3
				}
				ev.Object = o
			}
			sentObjs[name] = payloadJSON(ev.Object)
			select {
			case src.ch <- ev:
				outcomes = append(outcomes, []interface{}{"sent", name, true})
			case <-src.done:
				nsent--
				closeSrc()
				outcomes = append(outcomes, []interface{}{"closed", "", true})
			case <-time.After(stepWait):
				nsent--
				outcomes = append(outcomes, []interface{}{"blocked", "", true})
			}
		case op == "recv":
			select {
			case ev, ok := <-w.ResultChan():
				if !ok {
					outcomes = append(outcomes, []interface{}{"closed", "", true})
					break
				}
				// type and payload: the equivalent built-in object (or the untouched status)
				kind := strings.Title(strings.ToLower(string(ev.Type)))
				okPayload := false
				oname := ""
				switch o := ev.Object.(type) {
				case *kubeapps.StatefulSet:
					if kind == "Bookmark" {
						okPayload = strings.HasPrefix(o.ResourceVersion, "obj-") && o.APIVersion == "apps/v1"
					} else {
						okPayload = strings.HasPrefix(o.Name, "obj-") && o.Labels["k"] == o.Name && o.Spec.ServiceName == o.Name && o.APIVersion == "apps/v1"
					}
					oname = o.Name + o.ResourceVersion
					// ... and nothing but the fields of the object that was sent (the two types share their JSON form)
					if os.Getenv("VERIF_DEBUG") != "" && payloadJSON(o) != sentObjs[oname] {
						fmt.Fprintf(os.Stderr, "SENT %s\nGOT  %s\n", sentObjs[oname], payloadJSON(o))
					}
					okPayload = okPayload && payloadJSON(o) == sentObjs[oname]
				case *metav1.Status:
					okPayload = kind == "Error" && o.Code == 410
					oname = o.Message
				}
				outcomes = append(outcomes, []interface{}{kind, oname, okPayload})
			case <-time.After(stepWait):
				outcomes = append(outcomes, []interface{}{"none", "", true})
			}
		case op == "stop":
			w.Stop()
			outcomes = append(outcomes, []interface{}{"ok", "", true})
		case op == "close":
			srcEnded = true
			closeSrc()
			outcomes = append(outcomes, []interface{}{"ok", "", true})
		}
		time.Sleep(2 * time.Millisecond) // let the relay reach its next blocking point
	}
	// the consumer walks away
	stopped := false
	for _, op := range ops {
		if op == "stop" {
			stopped = true
		}
	}
	reactToStop := func() {
		select {
		case <-src.done:
			closeSrc()
		default:
		}
	}
	reactToStop()
	resClosed := false
	pending := 0
	switch {
	case stopped:
		// after Stop nobody is obliged to read: wait WITHOUT reading, then look once - the channel must be closed by then
		time.Sleep(300 * time.Millisecond)
		select {
		case _, ok := <-w.ResultChan():
			resClosed = !ok
			if ok {
				pending++
			}
		case <-time.After(50 * time.Millisecond):
		}
	case srcEnded:
		// the source ended and the consumer keeps reading: pending events come first, then the channel is closed
		for k := 0; k < 5 && !resClosed; k++ {
			select {
			case _, ok := <-w.ResultChan():
				if !ok {
					resClosed = true
				} else {
					pending++
				}
			case <-time.After(400 * time.Millisecond):
				k = 5
			}
		}
	}
	reactToStop()
	srcStops := int(atomic.LoadInt32(&src.stops))
	if !stopped && !srcEnded {
		// nothing obliged the relay to finish in this schedule; finish it now so that the final goroutine census is meaningful
		w.Stop()
		reactToStop()
	}
	return map[string]interface{}{"ops": ops, "outcomes": outcomes, "resClosed": resClosed, "pendingAfter": pending, "srcStops": srcStops,
		"stopped": stopped, "srcEnded": srcEnded, "panics": int(atomic.LoadInt32(&watchPanics) - before)}
}

// payloadJSON: the object's JSON without apiVersion and kind.
func payloadJSON(o interface{}) string {
	b, _ := json.Marshal(o)
	var m map[string]interface{}
	json.Unmarshal(b, &m)
	delete(m, "apiVersion")
	delete(m, "kind")
	if st, ok := m["status"].(map[string]interface{}); ok {
		delete(st, "availableReplicas") // a field of the built-in type the Advanced one does not have (always emitted)
	}
	b, _ = json.Marshal(m)
	return string(b)
}

// stopStorm: Stop is called by several parties at the same moment (the consumer from several goroutines, the relay
// itself because the source ended); rounds fresh watches, three concurrent Stop calls each, half of the rounds with the
// source ending at the same time. A panic (double close) is recovered per goroutine and counted.
func stopStorm(rounds int) map[string]interface{} {
	panics, badStops, open := int32(0), 0, 0
	before := atomic.LoadInt32(&watchPanics)
	for r := 0; r < rounds; r++ {
		pc := pcfake.NewSimpleClientset()
		src := &srcWatch{ch: make(chan watch.Event), done: make(chan struct{})}
		pc.PrependWatchReactor("statefulsets", func(a core.Action) (bool, watch.Interface, error) { return true, src, nil })
		hc := helper.NewHijackClient(kubefake.NewSimpleClientset(), pc)
		w, err := hc.AppsV1().StatefulSets(NS).Watch(context.TODO(), metav1.ListOptions{})
		if err != nil {
			continue
		}
		// a spinning barrier releases all parties within nanoseconds of each other
		var ready int32
		parties := int32(3)
		if r%2 == 1 {
			parties = 4
		}
		meet := func() {
			atomic.AddInt32(&ready, 1)
			for atomic.LoadInt32(&ready) < parties {
			}
		}
		var wg, sender sync.WaitGroup
		for g := 0; g < 3; g++ {
			wg.Add(1)
			go func() {
				defer wg.Done()
				defer func() {
					if recover() != nil {
						atomic.AddInt32(&panics, 1)
					}
				}()
				meet()
				w.Stop()
			}()
		}
		if r%2 == 1 {
			wg.Add(1)
			go func() { defer wg.Done(); meet(); close(src.ch) }()
		}
		if r%4 == 2 {
			// ... while the source hands over an event nobody will read: the relay reaches its send with the watch
			// being stopped at that very moment
			sender.Add(1)
			go func() {
				defer sender.Done()
				for atomic.LoadInt32(&ready) < parties-1 {
				}
				select {
				case src.ch <- watch.Event{Type: watch.Added, Object: &apps.StatefulSet{ObjectMeta: metav1.ObjectMeta{Name: "storm"}}}:
				case <-src.done:
				case <-time.After(100 * time.Millisecond):
				}
			}()
		}
		wg.Wait()
		// the result channel is closed shortly after (an event the relay had already handed over may come first)
		closed := false
		for k := 0; k < 3 && !closed; k++ {
			select {
			case _, ok := <-w.ResultChan():
				closed = !ok
			case <-time.After(500 * time.Millisecond):
				k = 3
			}
		}
		if !closed {
			open++
		}
		if n := atomic.LoadInt32(&src.stops); n != 1 {
			badStops++
		}
		sender.Wait()
		if r%2 == 0 {
			close(src.ch)
		}
	}
	return map[string]interface{}{"storm": true, "rounds": rounds, "panics": int(panics) + int(atomic.LoadInt32(&watchPanics)-before),
		"badStops": badStops, "notClosed": open}
}

// stormInChild runs the storm in a process of its own: a panic in the relay goroutine (which nothing can recover) kills
// that process, and is then reported as what it is - a panic - instead of taking the driver down.
func stormInChild(rounds int) map[string]interface{} {
	cmd := exec.Command(os.Args[0], "watch", "--storm-child", "--storm", fmt.Sprint(rounds))
	var so, se bytes.Buffer
	cmd.Stdout, cmd.Stderr = &so, &se
	err := cmd.Run()
	st := map[string]interface{}{}
	if err == nil && json.Unmarshal(bytes.TrimSpace(so.Bytes()), &st) == nil {
		for _, k := range []string{"panics", "badStops", "notClosed", "rounds"} {
			if f, ok := st[k].(float64); ok {
				st[k] = int(f)
			}
		}
		return st
	}
	msg := se.String()
	if i := strings.Index(msg, "panic:"); i >= 0 {
		msg = msg[i:]
	}
	if len(msg) > 300 {
		msg = msg[:300]
	}
	return map[string]interface{}{"storm": true, "rounds": rounds, "panics": 1, "badStops": 0, "notClosed": 0, "crashed": msg}
}

func relayGoroutines() int {
	buf := make([]byte, 1<<24)
	n := runtime.Stack(buf, true)
	return strings.Count(string(buf[:n]), "hijackWatch).receive")
}

func cmdWatch(args []string) {
	fs := flag.NewFlagSet("watch", flag.ExitOnError)
	depth := fs.Int("depth", 4, "schedule length (all schedules enumerated)")
	workers := fs.Int("workers", 32, "")
	out := fs.String("out", "", "")
	one := fs.String("ops", "", "replay one schedule (JSON list)")
	storm := fs.Int("storm", 20000, "rounds of three concurrent Stop calls on a fresh watch")
	stormChild := fs.Bool("storm-child", false, "internal: run only the storm and print its result")
	fs.Parse(args)
	if *stormChild {
		silenceKlog()
		catchRelayPanics()
		b, _ := json.Marshal(stopStorm(*storm))
		fmt.Println(string(b))
		return
	}
	os.MkdirAll(*out, 0o755)
	silenceKlog()
	catchRelayPanics()
	if *one != "" {
		var ops []string
		json.Unmarshal([]byte(*one), &ops)
		sh := newShard(*out, 0)
		rec := runWatch(ops)
		time.Sleep(300 * time.Millisecond)
		rec["leaked"] = relayGoroutines()
		sh.write(rec)
		sh.close()
		return
	}
	alphabet := []string{"send:Added", "send:Modified", "send:Deleted", "send:Bookmark", "send:Error", "recv", "stop", "close"}
	var scheds [][]string
	var gen func(cur []string, sends, stops, closes int)
	gen = func(cur []string, sends, stops, closes int) {
		if len(cur) > 0 {
			scheds = append(scheds, append([]string{}, cur...))
		}
		if len(cur) == *depth {
			return
		}
		for _, a := range alphabet {
			s, st, c := sends, stops, closes
			switch {
			case strings.HasPrefix(a, "send:"):
				s++
			case a == "stop":
				st++
			case a == "close":
				c++
			}
			if s > 3 || st > 2 || c > 1 {
				continue
			}
			// vary the event kind only in the first two sends (the relay treats kinds alike except Error / Bookmark payloads)
			if strings.HasPrefix(a, "send:") && s == 3 && a != "send:Added" && a != "send:Error" {
				continue
			}
			gen(append(cur, a), s, st, c)
		}
	}
	gen(nil, 0, 0, 0)
	// shards are written by 16 writers fed from a pool of workers
	type res struct {
		k   int
		rec map[string]interface{}
	}
	jobs := make(chan int)
	results := make(chan res, 64)
	for k := 0; k < *workers; k++ {
		go func() {
			for i := range jobs {
				results <- res{i, runWatch(scheds[i])}
			}
		}()
	}
	go func() {
		for i := range scheds {
			jobs <- i
		}
		close(jobs)
	}()
	shards := make([]*shardWriter, 16)
	for k := range shards {
		shards[k] = newShard(*out, k)
	}
	for n := 0; n < len(scheds); n++ {
		r := <-results
		r.rec["leaked"] = 0
		shards[r.k%16].write(r.rec)
	}
	time.Sleep(500 * time.Millisecond)
	leaked := relayGoroutines()
	// the global goroutine census goes into a record of its own
	shards[0].write(map[string]interface{}{"ops": []string{}, "outcomes": [][]interface{}{}, "resClosed": true, "pendingAfter": 0, "srcStops": 1, "stopped": true,
		"srcEnded": false, "panics": 0, "leaked": leaked, "census": true})
	// concurrent Stop calls (the schedules above call Stop one at a time)
	st := stormInChild(*storm)
	stops := 1
	if st["badStops"].(int) > 0 {
		stops = 2
	}
	shards[1].write(map[string]interface{}{"ops": []string{}, "outcomes": [][]interface{}{}, "resClosed": st["notClosed"].(int) == 0, "pendingAfter": 0,
		"srcStops": stops, "stopped": true, "srcEnded": false, "panics": st["panics"], "leaked": 0, "storm": st})
	for _, s := range shards {
		s.close()
	}
	b, _ := json.Marshal(map[string]interface{}{"records": len(scheds) + 2, "exhaustive": true, "leaked_goroutines_total": leaked, "stop_storm": st,
		"domain": fmt.Sprintf("all schedules of length <= %d over send(5 kinds)/recv/stop/close, <=3 sends, <=2 stops", *depth)})
	os.WriteFile(*out+"/meta.json", b, 0o644)
	fmt.Println(string(b))
}
