package main

import (
	"bufio"
	"encoding/json"
	"flag"
	"fmt"
	"math/rand"
	"os"
	"path/filepath"
	"sync"
	"time"
)

func fatal(format string, a ...interface{}) {
	fmt.Fprintf(os.Stderr, "harness: "+format+"\n", a...)
	os.Exit(2)
}

type shardWriter struct {
	f *os.File
	w *bufio.Writer
	n int
}

func newShard(dir string, k int) *shardWriter {
	f, err := os.Create(filepath.Join(dir, fmt.Sprintf("shard-%02d.ndjson", k)))
	if err != nil {
		fatal("%v", err)
	}
	return &shardWriter{f: f, w: bufio.NewWriterSize(f, 1<<20)}
}

func (s *shardWriter) write(rec interface{}) {
	b, err := json.Marshal(rec)
	if err != nil {
		fatal("marshal: %v", err)
	}
	s.w.Write(b)
	s.w.WriteByte('\n')
	s.n++
}

func (s *shardWriter) close() { s.w.Flush(); s.f.Close() }

func pickDomain(name string, maxOrd, maxRep, nph int) *Domain {
	switch name {
	case "pods":
		return PodsDomain(maxOrd, maxRep, nph, false)
	case "pods-del":
		return PodsDomain(maxOrd, maxRep, nph, true)
	case "pods-oddslots":
		return OddSlotsPodsDomain(maxOrd, maxRep, nph)
	case "pods-stale":
		return StalePodsDomain(maxOrd, maxRep, nph)
	case "pods-wide":
		return PodsDomainAt(8, maxOrd, maxRep, nph, false)
	}
	if d := extraDomain(name, maxOrd, maxRep, nph); d != nil {
		return d
	}
	fatal("unknown domain %q", name)
	return nil
}

// cmdSnap: enumerate (exhaustively or by seeded sampling) a snapshot domain through the real controller.
func cmdSnap(args []string) {
	fs := flag.NewFlagSet("snap", flag.ExitOnError)
	dom := fs.String("domain", "pods", "")
	maxOrd := fs.Int("maxord", 2, "")
	maxRep := fs.Int("maxrep", 2, "")
	nph := fs.Int("phases", 5, "")
	n := fs.Int64("n", 0, "number of random points (0 = exhaustive)")
	seed := fs.Int64("seed", 1, "")
	workers := fs.Int("workers", 16, "")
	out := fs.String("out", "", "output directory")
	one := fs.String("point", "", "replay one point given as JSON index vector")
	fs.Parse(args)
	d := pickDomain(*dom, *maxOrd, *maxRep, *nph)
	if *one != "" {
		var ix []int
		if err := json.Unmarshal([]byte(*one), &ix); err != nil {
			fatal("bad point: %v", err)
		}
		w := NewWorld()
		w.warm("foo")
		rec := w.RunOne(d.Make(ix))
		rec["dom"] = ix
		b, _ := json.Marshal(rec)
		if *out != "" {
			os.MkdirAll(*out, 0o755)
			os.WriteFile(filepath.Join(*out, "shard-00.ndjson"), append(b, '\n'), 0o644)
		}
		fmt.Println(string(b))
		return
	}
	os.MkdirAll(*out, 0o755)
	start := time.Now()
	total := d.Size()
	var wg sync.WaitGroup
	counts := make([]int, *workers)
	for k := 0; k < *workers; k++ {
		wg.Add(1)
		go func(k int) {
			defer wg.Done()
			w := NewWorld()
			w.warm("foo")
			sh := newShard(*out, k)
			defer sh.close()
			emit := func(ix []int) {
				rec := w.RunOne(d.Make(ix))
				rec["dom"] = ix
				sh.write(rec)
			}
			if *n == 0 {
				for i := int64(k); i < total; i += int64(*workers) {
					emit(d.Point(i))
				}
			} else {
				r := rand.New(rand.NewSource(*seed*1000 + int64(k)))
				per := *n / int64(*workers)
				if int64(k) < *n%int64(*workers) {
					per++
				}
				for i := int64(0); i < per; i++ {
					emit(d.Random(r))
				}
			}
			counts[k] = sh.n
		}(k)
	}
	wg.Wait()
	tot := 0
	for _, c := range counts {
		tot += c
	}
	meta := map[string]interface{}{"domain": d.Name, "domain_size": total, "records": tot, "exhaustive": *n == 0,
		"seed": *seed, "wall_s": time.Since(start).Seconds()}
	b, _ := json.Marshal(meta)
	os.WriteFile(filepath.Join(*out, "meta.json"), b, 0o644)
	fmt.Println(string(b))
}

func main() {
	if len(os.Args) < 2 {
		fatal("usage: asth <command> [flags]")
	}
	switch os.Args[1] {
	case "snap":
		cmdSnap(os.Args[2:])
	default:
		if !extraCommand(os.Args[1], os.Args[2:]) {
			fatal("unknown command %q", os.Args[1])
		}
	}
}
