package main

func extraDomain(name string, maxOrd, maxRep, nph int) *Domain { return nil }

func extraCommand(name string, args []string) bool {
	switch name {
	case "ordinals":
		cmdOrdinals(args)
	default:
		return false
	}
	return true
}
