package main

func extraCommand(name string, args []string) bool {
	switch name {
	case "ordinals":
		cmdOrdinals(args)
	case "sim":
		cmdSim(args)
	case "handlers":
		cmdHandlers(args)
	case "upgrade":
		cmdUpgrade(args)
	case "migrate":
		cmdMigrate(args)
	case "client":
		cmdClient(args)
	case "watch":
		cmdWatch(args)
	default:
		return false
	}
	return true
}
