package main

func extraCommand(name string, args []string) bool {
	switch name {
	case "ordinals":
		cmdOrdinals(args)
	default:
		return false
	}
	return true
}
