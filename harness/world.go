package main

// world.go: concretisation (abstract snapshot description -> real Kubernetes objects) and
// projection (real objects -> abstract snapshot record as logged for TLC). The projection
// is always computed from the real objects, never from what the builder intended.

import (
	"bytes"
	"encoding/json"
	"fmt"
	"regexp"
	"sort"
	"strconv"
	"strings"
	"sync"

	kubeapps "k8s.io/api/apps/v1"
	v1 "k8s.io/api/core/v1"
	apiequality "k8s.io/apimachinery/pkg/api/equality"
	"k8s.io/apimachinery/pkg/api/resource"
	metav1 "k8s.io/apimachinery/pkg/apis/meta/v1"
	"k8s.io/apimachinery/pkg/labels"
	"k8s.io/apimachinery/pkg/types"

	apps "github.com/pingcap/advanced-statefulset/client/apis/apps/v1"
	"github.com/pingcap/advanced-statefulset/client/apis/apps/v1/helper"
)

const (
	setUID   = types.UID("set-uid-self")
	staleUID = types.UID("set-uid-stale")
	otherUID = types.UID("other-uid")
)

// ---------- abstract descriptions (builder input) ----------

type PodSpec struct {
	Name     string // full pod name; if empty it is <set>-<Ord>
	Ord      int
	Phase    string // Pending | Running | Failed | Succeeded
	Ready    bool
	Term     bool
	Rev      string // abstract revision name (e.g. "t1.0") or raw label
	Owner    string // self | stale | other | none
	NoMatch  bool   // labels do not match the selector
	BadIdent bool   // pod-name label missing
	BadStor  bool   // volumes do not reference the claims
	NoLabels bool   // no labels at all (matches only selectors that admit label-less pods, e.g. the empty one)
	Tmpl     string // template the pod was built from (defaults to the revision's)
}

type RevSpec struct {
	Name    string // abstract name: natural "t1.0" or anything else (kept verbatim, prefixed by set name)
	Tmpl    string
	Num     int64
	Created int64
	Owner   string // self | stale | other | none
	Marker  bool
	NoSel   bool
}

type SetSpec struct {
	Name        string
	Replicas    int32
	SlotsAnn    *string // raw annotation value; nil = absent
	Policy      string
	Strat       string
	RuBlock     bool
	PartPresent bool
	Part        int32
	Tmpl        string
	Paused      bool
	Deleting    bool
	HistLimit   int32
	BadSelector bool
	Gen         int64
	ObsGen      int64
	StReplicas  int32
	StReady     int32
	StCurrent   int32
	StUpdated   int32
	CurRev      string // abstract
	UpdRev      string
	Collisions  int32
	NClaims     int
	ClaimNS     bool // first claim template carries metadata.namespace
	ExtraAnn    map[string]string
}

func slotsAnn(slots []int) *string {
	if len(slots) == 0 {
		return nil
	}
	b, _ := json.Marshal(slots)
	s := string(b)
	return &s
}

// ---------- template registry ----------

func tmplImage(tid string) string { return "img-" + tid }

var tmplCache sync.Map

// baseTemplate is the pod template with abstract id tid. It does not depend on the claim
// templates, and it is fully defaulted already, so that client-side defaulting leaves it alone.
func baseTemplate(setName, tid string, nclaims int) v1.PodTemplateSpec {
	key := setName + "/" + tid
	if t, ok := tmplCache.Load(key); ok {
		return *t.(*v1.PodTemplateSpec).DeepCopy()
	}
	s := &apps.StatefulSet{}
	s.Spec.Template = v1.PodTemplateSpec{
		ObjectMeta: metav1.ObjectMeta{Labels: map[string]string{"app": setName}},
		Spec:       v1.PodSpec{Containers: []v1.Container{{Name: "main", Image: tmplImage(tid)}}},
	}
	if tid == "t4" { // the template without labels (the CRD schema does not look into the template)
		s.Spec.Template.Labels = nil
	}
	if tid == "t5" { // a template whose labels go beyond the selector's
		s.Spec.Template.Labels["tier"] = "x"
	}
	apps.SetObjectDefaults_StatefulSet(s)
	// through JSON once, so that the representation is the one a decoded object has
	b, _ := json.Marshal(s.Spec.Template)
	t := &v1.PodTemplateSpec{}
	json.Unmarshal(b, t)
	tmplCache.Store(key, t)
	return *t.DeepCopy()
}

func claimTemplates(n int) []v1.PersistentVolumeClaim {
	var out []v1.PersistentVolumeClaim
	for i := 0; i < n; i++ {
		c := v1.PersistentVolumeClaim{
			ObjectMeta: metav1.ObjectMeta{Name: fmt.Sprintf("c%d", i)},
			Spec: v1.PersistentVolumeClaimSpec{
				AccessModes: []v1.PersistentVolumeAccessMode{v1.ReadWriteOnce},
				Resources:   v1.ResourceRequirements{Requests: v1.ResourceList{v1.ResourceStorage: resource.MustParse("1Gi")}},
			},
		}
		if i == 1 {
			c.Labels = map[string]string{"own": "label"}
		}
		out = append(out, c)
	}
	return out
}

func (s *SetSpec) Build() *apps.StatefulSet {
	set := &apps.StatefulSet{
		TypeMeta:   metav1.TypeMeta{Kind: "StatefulSet", APIVersion: "apps.pingcap.com/v1"},
		ObjectMeta: metav1.ObjectMeta{Name: s.Name, Namespace: NS, UID: setUID, Generation: s.Gen},
	}
	r, hl := s.Replicas, s.HistLimit
	set.Spec.Replicas = &r
	set.Spec.RevisionHistoryLimit = &hl
	set.Spec.ServiceName = "svc"
	set.Spec.Selector = &metav1.LabelSelector{MatchLabels: map[string]string{"app": s.Name}}
	if s.BadSelector {
		set.Spec.Selector = &metav1.LabelSelector{MatchExpressions: []metav1.LabelSelectorRequirement{{Key: "app", Operator: "Bogus"}}}
	}
	set.Spec.Template = baseTemplate(s.Name, s.Tmpl, s.NClaims)
	set.Spec.VolumeClaimTemplates = claimTemplates(s.NClaims)
	if s.ClaimNS && s.NClaims > 0 {
		set.Spec.VolumeClaimTemplates[0].Namespace = "elsewhere"
	}
	set.Spec.PodManagementPolicy = apps.PodManagementPolicyType(s.Policy)
	set.Spec.UpdateStrategy.Type = apps.StatefulSetUpdateStrategyType(s.Strat)
	if s.RuBlock {
		set.Spec.UpdateStrategy.RollingUpdate = &apps.RollingUpdateStatefulSetStrategy{}
		if s.PartPresent {
			p := s.Part
			set.Spec.UpdateStrategy.RollingUpdate.Partition = &p
		}
	}
	ann := map[string]string{}
	for k, v := range s.ExtraAnn {
		ann[k] = v
	}
	if s.SlotsAnn != nil {
		ann[helper.DeleteSlotsAnn] = *s.SlotsAnn
	}
	if s.Paused {
		ann[helper.PausedReconcileAnn] = "true"
	}
	if len(ann) > 0 {
		set.Annotations = ann
	}
	if s.Deleting {
		now := metav1.Unix(900, 0)
		set.DeletionTimestamp = &now
	}
	return set
}

// ---------- natural revisions (what the controller itself creates) ----------

type natKey struct {
	set, tid string
	c        int32
}

type World struct {
	e           *Env
	aux         *Env // private environment used to let the real controller mint revisions
	nat         map[natKey]*kubeapps.ControllerRevision
	natName     map[string]string // real name -> abstract
	canon       map[int]int       // raw plan position -> position in the canonical call order of the last reconcile
	guardMaxOrd int               // sim: highest ordinal user actions may make desirable
	slowTail    bool              // sim: the kubelet of the fair tail reaps terminating pods only every other round
	queueMode   bool              // sim: reconciles happen only through the controller's work queue, caches fire the handlers
}

func NewWorld() *World {
	return &World{e: NewEnv(), aux: NewEnv(), nat: map[natKey]*kubeapps.ControllerRevision{}, natName: map[string]string{}}
}

// natural returns the revision the real controller creates for (set, template, collision count).
func (w *World) natural(setName, tid string, c int32) *kubeapps.ControllerRevision {
	k := natKey{setName, tid, c}
	if r, ok := w.nat[k]; ok {
		return r
	}
	// run the real controller on an empty world in the auxiliary environment
	a := w.aux
	a.Reset()
	ss := (&SetSpec{Name: setName, Replicas: 0, Policy: "OrderedReady", Strat: "RollingUpdate", RuBlock: true, PartPresent: true,
		Tmpl: tid, HistLimit: 10, Gen: 1, Collisions: c}).Build()
	ss.Status.CollisionCount = &c
	a.api.Put(RSet, ss.DeepCopy())
	a.CacheSync(RSet, false)
	if res, det := a.Sync(setName); res != "ok" {
		panic("natural revision: " + res + " " + det)
	}
	var got *kubeapps.ControllerRevision
	for _, n := range a.api.Names(RRev) {
		got = a.apiRev(n).DeepCopy()
	}
	if got == nil {
		panic("natural revision not created")
	}
	a.Reset()
	w.nat[k] = got
	w.natName[got.Name] = fmt.Sprintf("%s.%d", tid, c)
	return got
}

var allTmpls = []string{"t0", "t1", "t2", "t3", "t4", "t5"}

func (w *World) warm(setName string) {
	for _, t := range allTmpls {
		for c := int32(0); c < 3; c++ {
			w.natural(setName, t, c)
		}
	}
}

// realRevName maps an abstract revision name to the real object name.
func (w *World) realRevName(setName, abs string) string {
	if abs == "" {
		return ""
	}
	if i := strings.Index(abs, "."); i > 0 {
		if c, err := strconv.Atoi(abs[i+1:]); err == nil {
			for _, t := range allTmpls {
				if t == abs[:i] {
					return w.natural(setName, abs[:i], int32(c)).Name
				}
			}
		}
	}
	return setName + "-" + abs
}

func (w *World) absRevName(setName, realName string) string {
	if a, ok := w.natName[realName]; ok {
		return a
	}
	return strings.TrimPrefix(realName, setName+"-")
}

func ownerRefs(owner, setName string) []metav1.OwnerReference {
	t := true
	switch owner {
	case "self":
		return []metav1.OwnerReference{{APIVersion: "apps.pingcap.com/v1", Kind: "StatefulSet", Name: setName, UID: setUID, Controller: &t, BlockOwnerDeletion: &t}}
	case "stale":
		return []metav1.OwnerReference{{APIVersion: "apps.pingcap.com/v1", Kind: "StatefulSet", Name: setName, UID: staleUID, Controller: &t, BlockOwnerDeletion: &t}}
	case "other":
		return []metav1.OwnerReference{{APIVersion: "apps/v1", Kind: "ReplicaSet", Name: "someone", UID: otherUID, Controller: &t, BlockOwnerDeletion: &t}}
	case "builtin": // the built-in StatefulSet the set was converted from (projected as owner class "other")
		return []metav1.OwnerReference{{APIVersion: "apps/v1", Kind: "StatefulSet", Name: setName, UID: "builtin-uid", Controller: &t, BlockOwnerDeletion: &t}}
	}
	return nil
}

func (w *World) BuildRev(setName string, r RevSpec) *kubeapps.ControllerRevision {
	base := w.natural(setName, r.Tmpl, 0).DeepCopy()
	base.Name = w.realRevName(setName, r.Name)
	base.ResourceVersion = ""
	base.UID = ""
	base.Revision = r.Num
	base.CreationTimestamp = metav1.Unix(r.Created, 0)
	base.OwnerReferences = ownerRefs(r.Owner, setName)
	if r.NoSel {
		delete(base.Labels, "app")
	}
	if r.Marker {
		base.Labels[helper.UpgradeToAdvancedStatefulSetAnn] = setName
	}
	return base
}

func (w *World) BuildPod(set *apps.StatefulSet, p PodSpec, nclaims int) *v1.Pod {
	name := p.Name
	if name == "" {
		name = fmt.Sprintf("%s-%d", set.Name, p.Ord)
	}
	tid := p.Tmpl
	if tid == "" {
		tid = "t0"
		if i := strings.Index(p.Rev, "."); i > 0 {
			tid = p.Rev[:i]
		}
	}
	tmpl := baseTemplate(set.Name, tid, nclaims)
	pod := &v1.Pod{ObjectMeta: metav1.ObjectMeta{Name: name, Namespace: NS, Labels: tmpl.Labels}, Spec: tmpl.Spec}
	pod.OwnerReferences = ownerRefs(p.Owner, set.Name)
	if p.NoMatch {
		pod.Labels["app"] = "not-" + set.Name
	}
	if !p.BadIdent {
		pod.Labels[apps.StatefulSetPodNameLabel] = name
	}
	if p.Rev != "" {
		pod.Labels[kubeapps.StatefulSetRevisionLabel] = w.realRevName(set.Name, p.Rev)
	}
	if p.NoLabels {
		pod.Labels = nil
	}
	pod.Spec.Hostname = name
	pod.Spec.Subdomain = set.Spec.ServiceName
	if !p.BadStor {
		for i := 0; i < nclaims; i++ {
			cn := fmt.Sprintf("c%d", i)
			pod.Spec.Volumes = append(pod.Spec.Volumes, v1.Volume{Name: cn, VolumeSource: v1.VolumeSource{
				PersistentVolumeClaim: &v1.PersistentVolumeClaimVolumeSource{ClaimName: fmt.Sprintf("%s-%s", cn, name)}}})
		}
	}
	pod.Status.Phase = v1.PodPhase(p.Phase)
	if p.Phase != "Pending" {
		pod.Spec.NodeName = "node-1"
	}
	if p.Ready {
		pod.Status.Conditions = []v1.PodCondition{{Type: v1.PodReady, Status: v1.ConditionTrue}}
	}
	if p.Term {
		now := metav1.Unix(950, 0)
		pod.DeletionTimestamp = &now
		pod.Spec.NodeName = "node-1"
	}
	return pod
}

// ---------- projection ----------

var podRe = regexp.MustCompile("(.*)-([0-9]+)$")

func parentAndOrdinal(name string) (string, int) {
	m := podRe.FindStringSubmatch(name)
	if len(m) < 3 {
		return "", -1
	}
	i, err := strconv.ParseInt(m[2], 10, 32)
	if err != nil {
		return m[1], -1
	}
	return m[1], int(i)
}

func ownerClass(o metav1.Object, set *apps.StatefulSet) string {
	ref := metav1.GetControllerOf(o)
	if ref == nil {
		return "none"
	}
	if set != nil && ref.UID == set.UID {
		return "self"
	}
	if set != nil && ref.Kind == "StatefulSet" && ref.Name == set.Name && strings.HasPrefix(ref.APIVersion, "apps.pingcap.com/") {
		return "stale"
	}
	return "other"
}

func podReady(p *v1.Pod) bool {
	for _, c := range p.Status.Conditions {
		if c.Type == v1.PodReady && c.Status == v1.ConditionTrue {
			return true
		}
	}
	return false
}

func parseSlots(set *apps.StatefulSet) []int {
	out := []int{}
	v, ok := set.Annotations[helper.DeleteSlotsAnn]
	if !ok {
		return out
	}
	var raw []int32
	if err := json.Unmarshal([]byte(v), &raw); err != nil {
		return out
	}
	seen := map[int32]bool{}
	for _, x := range raw {
		if !seen[x] {
			seen[x] = true
			out = append(out, int(x))
		}
	}
	sort.Ints(out)
	return out
}

func b2i(b bool) int {
	if b {
		return 1
	}
	return 0
}

func (w *World) tmplID(set *apps.StatefulSet, t *v1.PodTemplateSpec) string {
	if len(t.Spec.Containers) == 0 {
		return "t?"
	}
	img := t.Spec.Containers[0].Image
	if !strings.HasPrefix(img, "img-") {
		return "t?"
	}
	tid := img[4:]
	want := baseTemplate(set.Name, tid, len(set.Spec.VolumeClaimTemplates))
	if !apiequality.Semantic.DeepEqual(*t, want) {
		return "t?"
	}
	return tid
}

func (w *World) revTmpl(setName string, r *kubeapps.ControllerRevision) string {
	for _, t := range allTmpls {
		if bytes.Equal(w.natural(setName, t, 0).Data.Raw, r.Data.Raw) {
			return t
		}
	}
	return "junk"
}

func strOrEmpty(ss []string) []string {
	if ss == nil {
		return []string{}
	}
	return ss
}

// AbsSet projects the set as the controller's cache shows it.
func (w *World) AbsSet(name string) []interface{} {
	return w.AbsSetObj(w.cachedSet(name), name)
}

// AbsSetObj projects a StatefulSet object (nil = absent).
func (w *World) AbsSetObj(s *apps.StatefulSet, name string) []interface{} {
	if s == nil {
		return []interface{}{name, false, 0, []int{}, "", "", false, false, 0, "", false, false, 0, true, 0,
			[]int{0, 0, 0, 0, 0, 0}, []string{"", ""}, []string{}}
	}
	_, selErr := metav1.LabelSelectorAsSelector(s.Spec.Selector)
	ru := s.Spec.UpdateStrategy.RollingUpdate
	part := 0
	if ru != nil && ru.Partition != nil {
		part = int(*ru.Partition)
	}
	hl := -1
	if s.Spec.RevisionHistoryLimit != nil {
		hl = int(*s.Spec.RevisionHistoryLimit)
	}
	rep := 0
	if s.Spec.Replicas != nil {
		rep = int(*s.Spec.Replicas)
	}
	coll := 0
	if s.Status.CollisionCount != nil {
		coll = int(*s.Status.CollisionCount)
	}
	claims := []string{}
	for _, c := range s.Spec.VolumeClaimTemplates {
		claims = append(claims, c.Name)
	}
	sort.Strings(claims)
	return []interface{}{
		s.Name, true, rep, parseSlots(s), string(s.Spec.PodManagementPolicy), string(s.Spec.UpdateStrategy.Type),
		ru != nil, ru != nil && ru.Partition != nil, part, w.tmplID(s, &s.Spec.Template),
		s.Annotations[helper.PausedReconcileAnn] == "true", s.DeletionTimestamp != nil, hl, selErr == nil, int(s.Generation),
		[]int{int(s.Status.ObservedGeneration), int(s.Status.Replicas), int(s.Status.ReadyReplicas), int(s.Status.CurrentReplicas), int(s.Status.UpdatedReplicas), coll},
		[]string{w.absRevName(s.Name, s.Status.CurrentRevision), w.absRevName(s.Name, s.Status.UpdateRevision)},
		claims,
	}
}

func (w *World) cachedSet(name string) *apps.StatefulSet {
	o, ok, _ := w.e.setIdx.GetByKey(NS + "/" + name)
	if !ok {
		return nil
	}
	return o.(*apps.StatefulSet)
}

func identityOK(set *apps.StatefulSet, p *v1.Pod) bool {
	parent, ord := parentAndOrdinal(p.Name)
	return ord >= 0 && parent == set.Name && p.Name == fmt.Sprintf("%s-%d", set.Name, ord) &&
		p.Namespace == set.Namespace && p.Labels[apps.StatefulSetPodNameLabel] == p.Name
}

func storageOK(set *apps.StatefulSet, p *v1.Pod) bool {
	_, ord := parentAndOrdinal(p.Name)
	if ord < 0 {
		return false
	}
	vols := map[string]v1.Volume{}
	for _, v := range p.Spec.Volumes {
		vols[v.Name] = v
	}
	for _, c := range set.Spec.VolumeClaimTemplates {
		v, ok := vols[c.Name]
		if !ok || v.PersistentVolumeClaim == nil || v.PersistentVolumeClaim.ClaimName != fmt.Sprintf("%s-%s-%d", c.Name, set.Name, ord) {
			return false
		}
	}
	return true
}

// AbsPods projects every pod of a store (cache or API) relative to the set.
func (w *World) AbsPods(set *apps.StatefulSet, pods []*v1.Pod) [][]interface{} {
	out := [][]interface{}{}
	// uidOK: the pod object is the same incarnation as the pod of that name in the API
	apiUID := map[string]string{}
	for _, n := range w.e.api.Names(RPods) {
		apiUID[n] = string(w.e.apiPod(n).UID)
	}
	if set == nil {
		return out
	}
	sel, err := metav1.LabelSelectorAsSelector(set.Spec.Selector)
	sort.Slice(pods, func(i, j int) bool { return pods[i].Name < pods[j].Name })
	for _, p := range pods {
		parent, ord := parentAndOrdinal(p.Name)
		match := err == nil && sel.Matches(labels.Set(p.Labels))
		out = append(out, []interface{}{
			p.Name, ord, parent == set.Name, match, ownerClass(p, set), string(p.Status.Phase), podReady(p),
			p.DeletionTimestamp != nil, w.absRevName(set.Name, p.Labels[kubeapps.StatefulSetRevisionLabel]),
			identityOK(set, p), storageOK(set, p), apiUID[p.Name] == string(p.UID),
		})
	}
	return out
}

func (w *World) cachedPods() []*v1.Pod {
	var pods []*v1.Pod
	for _, o := range w.e.podIdx.List() {
		pods = append(pods, o.(*v1.Pod))
	}
	return pods
}

func (w *World) apiPods() []*v1.Pod {
	var pods []*v1.Pod
	for _, n := range w.e.api.Names(RPods) {
		pods = append(pods, w.e.apiPod(n))
	}
	return pods
}

// AbsRevs projects every ControllerRevision in the API relative to the set.
func (w *World) AbsRevs(set *apps.StatefulSet) [][]interface{} {
	out := [][]interface{}{}
	if set == nil {
		return out
	}
	sel, err := metav1.LabelSelectorAsSelector(set.Spec.Selector)
	for i, n := range w.e.api.Names(RRev) { // Names is sorted: i is the name rank
		r := w.e.apiRev(n)
		out = append(out, []interface{}{
			w.absRevName(set.Name, r.Name), w.revTmpl(set.Name, r), int(r.Revision), int(r.CreationTimestamp.Unix()),
			ownerClass(r, set), r.Labels[helper.UpgradeToAdvancedStatefulSetAnn] == set.Name,
			err == nil && sel.Matches(labels.Set(r.Labels)), i + 1,
		})
	}
	return out
}

func (w *World) AbsPVCs() []string {
	out := []string{}
	for _, o := range w.e.pvcIdx.List() {
		out = append(out, o.(*v1.PersistentVolumeClaim).Name)
	}
	sort.Strings(out)
	return out
}

func (w *World) AbsFresh(name string, cached *apps.StatefulSet) []bool {
	f := w.e.apiSet(name)
	if f == nil {
		return []bool{false, false, false, false}
	}
	return []bool{true, cached != nil && f.UID == cached.UID, f.DeletionTimestamp != nil,
		cached != nil && f.ResourceVersion == cached.ResourceVersion}
}

// Snapshot is the full record of what a reconcile of the set is about to read.
func (w *World) Snapshot(name string) map[string]interface{} {
	cs := w.cachedSet(name)
	return map[string]interface{}{
		"set":    w.AbsSet(name),
		"pods":   w.AbsPods(cs, w.cachedPods()),
		"revs":   w.AbsRevs(cs),
		"pvcs":   w.AbsPVCs(),
		"fresh":  w.AbsFresh(name, cs),
		"apods":  w.AbsApiPods(),
		"apvcs":  w.AbsApiPVCs(),
		"faults": w.AbsFaults(),
	}
}

// AbsApiPods: the pods the API really holds, with the flag that decides whether a delete removes them at once.
func (w *World) AbsApiPods() [][]interface{} {
	out := [][]interface{}{}
	for _, p := range w.apiPods() {
		imm := p.Status.Phase == v1.PodFailed || p.Status.Phase == v1.PodSucceeded || p.Spec.NodeName == ""
		out = append(out, []interface{}{p.Name, imm})
	}
	return out
}

func (w *World) AbsApiPVCs() []string { return w.e.api.Names(RPVC) }

func (w *World) AbsFaults() [][]interface{} {
	out := [][]interface{}{}
	for _, f := range w.e.api.faults {
		out = append(out, []interface{}{f.K, f.Kind, f.Applied, f.Die, f.List, f.Evict})
	}
	return out
}
