package main

// domains2.go: the ownership (C10/C11), history (C13/C08), claims (C06) and admitted-object
// (C15) snapshot domains. spec/MCOwnership.tla and spec/MCHistory.tla define the same
// products on the TLA+ side.

import (
	"encoding/json"
	"fmt"

	apps "github.com/pingcap/advanced-statefulset/client/apis/apps/v1"
)

var ownerTab = []string{"self", "stale", "other", "none"}

func applyFresh(sc *Scenario, f int) {
	switch f {
	case 1:
		sc.FreshAbsent = true
	case 2:
		sc.FreshOtherUID = true
	case 3:
		sc.FreshDeleting = true
	}
}

// OwnPodsDomain: pods with every combination of owner, label match, name shape, terminating.
//
//	dims: policy, deleting, paused, fresh(4), replicas(1..2), then per pod slot (nPods): 1 + 4 shapes * 4 owners * 2 match * 2 term
func OwnPodsDomain(nPods int) *Domain {
	per := 1 + 5*4*2*2
	dims := []int{2, 2, 2, 4, 2}
	for i := 0; i < nPods; i++ {
		dims = append(dims, per)
	}
	d := &Domain{Name: fmt.Sprintf("own-pods(%d pods)", nPods), Dims: dims}
	d.Make = func(ix []int) *Scenario {
		sc := &Scenario{Dom: ix}
		s := &sc.Set
		s.Name = "foo"
		s.Policy = []string{"OrderedReady", "Parallel"}[ix[0]]
		s.Deleting = ix[1] == 1
		s.Paused = ix[2] == 1
		applyFresh(sc, ix[3])
		s.Replicas = int32(ix[4] + 1)
		s.Strat, s.RuBlock, s.PartPresent = "RollingUpdate", true, true
		s.Tmpl, s.UpdRev, s.CurRev, s.HistLimit, s.Gen, s.ObsGen = "t2", "t2.0", "t2.0", 10, 2, 1
		sc.Revs = stdRevs()
		for o := 0; o < nPods; o++ {
			st := ix[5+o]
			if st == 0 {
				continue
			}
			st--
			term := st%2 == 1
			st /= 2
			nomatch := st%2 == 1
			st /= 2
			owner := ownerTab[st%4]
			st /= 4
			name := []string{"foo-%d", "foo-%d-x", "x-foo-%d", "foox-%d", "foo-db-%d"}[st]
			sc.Pods = append(sc.Pods, PodSpec{Name: fmt.Sprintf(name, o), Ord: o, Phase: "Running", Ready: true, Term: term,
				Rev: "t2.0", Owner: owner, NoMatch: nomatch})
		}
		return sc
	}
	return d
}

// AdoptDomain: several orphans at once, enumerated completely even in the quick tier.
//
//	dims: policy, deleting, paused, fresh(4), then 3 pod slots: absent | adoptable orphan | terminating orphan | owned
func AdoptDomain() *Domain {
	dims := []int{2, 2, 2, 4, 5, 5, 5}
	d := &Domain{Name: "adopt(3 pods)", Dims: dims}
	d.Make = func(ix []int) *Scenario {
		sc := &Scenario{Dom: ix}
		s := &sc.Set
		s.Name = "foo"
		s.Policy = []string{"OrderedReady", "Parallel"}[ix[0]]
		s.Deleting = ix[1] == 1
		s.Paused = ix[2] == 1
		applyFresh(sc, ix[3])
		s.Replicas = 3
		s.Strat, s.RuBlock, s.PartPresent = "RollingUpdate", true, true
		s.Tmpl, s.UpdRev, s.CurRev, s.HistLimit, s.Gen, s.ObsGen = "t2", "t2.0", "t2.0", 10, 2, 1
		sc.Revs = stdRevs()
		for o := 0; o < 3; o++ {
			switch ix[4+o] {
			case 1:
				sc.Pods = append(sc.Pods, PodSpec{Ord: o, Phase: "Running", Ready: true, Rev: "t2.0", Owner: "none"})
			case 2:
				sc.Pods = append(sc.Pods, PodSpec{Ord: o, Phase: "Running", Ready: true, Term: true, Rev: "t2.0", Owner: "none"})
			case 3:
				sc.Pods = append(sc.Pods, PodSpec{Ord: o, Phase: "Running", Ready: true, Rev: "t2.0", Owner: "self"})
			case 4: // an orphan the roll-out would replace once it is adopted (outdated revision)
				sc.Pods = append(sc.Pods, PodSpec{Ord: o, Phase: "Running", Ready: true, Rev: "t1.0", Owner: "none"})
			}
		}
		return sc
	}
	return d
}

// OwnRevsDomain: revisions with every combination of owner and label shape.
//
//	dims: deleting, paused, fresh(4), histLimit(0..1), set template (t2 = listed, t3 = new), then per revision slot (3):
//	      1 + 4 owners * 3 label shapes (sel, marker, both)
func OwnRevsDomain() *Domain {
	per := 1 + 4*3
	dims := []int{2, 2, 4, 2, 2, per, per, per}
	d := &Domain{Name: "own-revs(3 revisions)", Dims: dims}
	d.Make = func(ix []int) *Scenario {
		sc := &Scenario{Dom: ix}
		s := &sc.Set
		s.Name = "foo"
		s.Policy = "OrderedReady"
		s.Deleting = ix[0] == 1
		s.Paused = ix[1] == 1
		applyFresh(sc, ix[2])
		s.HistLimit = int32(ix[3])
		s.Tmpl = []string{"t2", "t3"}[ix[4]]
		s.Replicas = 1
		s.Strat, s.RuBlock, s.PartPresent = "RollingUpdate", true, true
		s.UpdRev, s.CurRev, s.Gen, s.ObsGen = "t2.0", "t2.0", 2, 1
		for k := 0; k < 3; k++ {
			st := ix[5+k]
			if st == 0 {
				continue
			}
			st--
			shape := st % 3
			owner := ownerTab[st/3]
			tid := fmt.Sprintf("t%d", k)
			sc.Revs = append(sc.Revs, RevSpec{Name: tid + ".0", Tmpl: tid, Num: int64(k + 1), Created: int64(100 * (k + 1)), Owner: owner,
				Marker: shape >= 1, NoSel: shape == 1})
		}
		sc.Pods = []PodSpec{{Ord: 0, Phase: "Running", Ready: true, Rev: "t2.0", Owner: "self"}}
		return sc
	}
	return d
}

// HistoryDomain: revision populations for truncation and for the update-revision lookup.
//
//	dims: set template (t0..t3, t3 may be unlisted -> create), curRev (5: t0.0 t1.0 t2.0 "" gone), histLimit (0..2),
//	      numbering (3: ascending, descending, ties), collisions (0..1), squatter on the natural name (3: none, foreign, own and newest),
//	      4 revision slots: 1 + 3 owners(self,none,other) * 3 label shapes ; 2 pods: absent | rev label in 4 (t0.0 t1.0 t2.0 t3.0) x (healthy, terminating)
func HistoryDomain() *Domain {
	per := 1 + 3*3
	dims := []int{5, 5, 3, 3, 2, 3, per, per, per, per, 9, 9}
	d := &Domain{Name: "history(4 revisions, 2 pods)", Dims: dims}
	d.Make = func(ix []int) *Scenario {
		sc := &Scenario{Dom: ix}
		s := &sc.Set
		s.Name = "foo"
		s.Policy = "Parallel"
		s.Tmpl = []string{"t0", "t1", "t2", "t3", "t5"}[ix[0]] // (t5: template labels beyond the selector, never listed -> create)
		s.CurRev = []string{"t0.0", "t1.0", "t2.0", "", "gone"}[ix[1]]
		s.HistLimit = int32(ix[2])
		s.Collisions = int32(ix[4])
		s.Replicas = 2
		s.Strat = "OnDelete" // keep pods where they are: history is the subject here
		s.UpdRev, s.Gen, s.ObsGen = "t2.0", 2, 1
		owners := []string{"self", "none", "other"}
		for k := 0; k < 4; k++ {
			st := ix[6+k]
			if st == 0 {
				continue
			}
			st--
			shape := st % 3
			owner := owners[st/3]
			tid := fmt.Sprintf("t%d", k)
			num, created := int64(k+1), int64(100*(k+1))
			switch ix[3] {
			case 1:
				num = int64(4 - k)
			case 2:
				num = int64(1 + k/2) // ties: 1,1,2,2 broken by creation time
			}
			marker := shape >= 1
			if owner == "none" && shape == 0 {
				marker = false
			}
			sc.Revs = append(sc.Revs, RevSpec{Name: tid + ".0", Tmpl: tid, Num: num, Created: created, Owner: owner,
				Marker: marker, NoSel: shape == 1})
		}
		if ix[5] >= 1 {
			// a revision squatting on the name the controller would pick for the set's template, with other data:
			// 1: a foreign, unlabelled one; 2: one of the set's own, and the newest of its history (a true hash collision)
			nm := fmt.Sprintf("%s.%d", s.Tmpl, s.Collisions)
			taken := false
			for _, r := range sc.Revs {
				if r.Name == nm {
					taken = true
				}
			}
			if !taken {
				other := "t0"
				if s.Tmpl == "t0" {
					other = "t1"
				}
				if ix[5] == 1 {
					sc.Revs = append(sc.Revs, RevSpec{Name: nm, Tmpl: other, Num: 9, Created: 50, Owner: "other", NoSel: true})
				} else {
					sc.Revs = append(sc.Revs, RevSpec{Name: nm, Tmpl: other, Num: 9, Created: 950, Owner: "self"})
				}
			}
		}
		for o := 0; o < 2; o++ {
			st := ix[10+o]
			if st == 0 {
				continue
			}
			// 1..4: healthy pod labelled t(st-1).0 ; 5..8: the same, but terminating
			sc.Pods = append(sc.Pods, PodSpec{Ord: o, Phase: "Running", Ready: true, Term: st > 4, Rev: fmt.Sprintf("t%d.0", (st-1)%4), Owner: "self"})
		}
		return sc
	}
	return d
}

// ClaimsDomain (C06): claim templates x claims already present x pod states needing create / update.
//
//	dims: nclaims(0..2), policy, replicas(1..3), slots mask(3 bits), which claims pre-exist (mask over 2 templates x 3 ordinals = 6 bits),
//	      per ordinal (3): absent | healthy | healthy with bad identity | healthy with bad storage | failed
func ClaimsDomain() *Domain {
	dims := []int{3, 2, 3, 8, 64, 5, 5, 5, 2, 64, 8}
	d := &Domain{Name: "claims(3 ordinals, <=2 claim templates, lagging claim cache, terminating claims)", Dims: dims}
	d.Make = func(ix []int) *Scenario {
		sc := &Scenario{Dom: ix}
		s := &sc.Set
		s.Name = "foo"
		s.NClaims = ix[0]
		s.ClaimNS = ix[8] == 1 // the first claim template carries a namespace of its own (legal, unusual)
		s.Policy = []string{"OrderedReady", "Parallel"}[ix[1]]
		s.Replicas = int32(ix[2] + 1)
		s.SlotsAnn = slotsAnn(maskToSlots(ix[3], 3))
		s.Strat, s.RuBlock, s.PartPresent = "RollingUpdate", true, true
		s.Tmpl, s.UpdRev, s.CurRev, s.HistLimit, s.Gen, s.ObsGen = "t2", "t2.0", "t2.0", 10, 2, 1
		sc.Revs = stdRevs()
		for c := 0; c < s.NClaims; c++ {
			for o := 0; o < 3; o++ {
				if ix[4]&(1<<(c*3+o)) != 0 {
					sc.PVCs = append(sc.PVCs, fmt.Sprintf("c%d-foo-%d", c, o))
					if len(ix) > 10 && c == 0 && ix[10]&(1<<o) != 0 { // the retained claim of this ordinal is being deleted
						sc.PVCsTerminating = append(sc.PVCsTerminating, fmt.Sprintf("c%d-foo-%d", c, o))
					}
				} else if len(ix) > 9 && ix[9]&(1<<(c*3+o)) != 0 {
					sc.PVCsApiOnly = append(sc.PVCsApiOnly, fmt.Sprintf("c%d-foo-%d", c, o)) // in the API, not yet in the cache
				}
			}
		}
		for o := 0; o < 3; o++ {
			switch ix[5+o] {
			case 1:
				sc.Pods = append(sc.Pods, PodSpec{Ord: o, Phase: "Running", Ready: true, Rev: "t2.0", Owner: "self"})
			case 2:
				sc.Pods = append(sc.Pods, PodSpec{Ord: o, Phase: "Running", Ready: true, Rev: "t2.0", Owner: "self", BadIdent: true})
			case 3:
				sc.Pods = append(sc.Pods, PodSpec{Ord: o, Phase: "Running", Ready: true, Rev: "t2.0", Owner: "self", BadStor: true})
			case 4:
				sc.Pods = append(sc.Pods, PodSpec{Ord: o, Phase: "Failed", Rev: "t2.0", Owner: "self"})
			}
		}
		return sc
	}
	return d
}

// AdmittedDomain (C15): the lattice of objects the CRD schema admits. The object is written as
// JSON (as kubectl would send it, after the schema's own defaults for replicas and
// revisionHistoryLimit) and decoded into the typed object; optionally client-side defaulting
// is applied. Pod populations over ordinals 0..2 include the fully rolled out healthy set.
//
//	dims: strategy shape(9), rollingUpdate shape(6), policy(4), selector(4), slots annotation(6), status shape(5), nclaims(2),
//	      defaulting(2), replicas(0..2), 3 pods x (absent, healthy@upd, healthy@old, pending@upd, failed@upd, healthy without labels)
var admStrategyTypes = []interface{}{nil, "", "RollingUpdate", "OnDelete", "Junk"}

func AdmittedDomain() *Domain {
	dims := []int{6, 6, 4, 4, 6, 5, 2, 2, 3, 6, 6, 6, 3}
	d := &Domain{Name: "admitted(CRD lattice x 3 ordinals + a pod at the largest ordinal)", Dims: dims}
	d.Make = func(ix []int) *Scenario {
		sc := &Scenario{Dom: ix}
		s := &sc.Set
		s.Name = "foo"
		s.Replicas = int32(ix[8])
		s.Tmpl, s.UpdRev, s.CurRev, s.HistLimit, s.Gen, s.ObsGen = "t2", "t2.0", "t1.0", 10, 2, 1
		s.NClaims = ix[6]
		s.Policy = []string{"", "OrderedReady", "Parallel", "Junk"}[ix[2]]
		sc.Revs = stdRevs()
		for o := 0; o < 3; o++ {
			switch ix[9+o] {
			case 1:
				sc.Pods = append(sc.Pods, PodSpec{Ord: o, Phase: "Running", Ready: true, Rev: "t2.0", Owner: "self"})
			case 2:
				sc.Pods = append(sc.Pods, PodSpec{Ord: o, Phase: "Running", Ready: true, Rev: "t0.0", Owner: "self"})
			case 3:
				sc.Pods = append(sc.Pods, PodSpec{Ord: o, Phase: "Pending", Rev: "t2.0", Owner: "self"})
			case 4:
				sc.Pods = append(sc.Pods, PodSpec{Ord: o, Phase: "Failed", Rev: "t2.0", Owner: "self"})
			case 5: // an owned, running pod without any label (a member under a selector that admits label-less pods)
				sc.Pods = append(sc.Pods, PodSpec{Ord: o, Phase: "Running", Ready: true, Rev: "", Owner: "self", NoLabels: true})
			}
		}
		if ix[3] == 3 {
			s.Tmpl = "t4"
		}
		// status shapes 3 and 4: the status a finished reconcile leaves behind (exact census; 3: roll-out complete), but
		// without the optional collisionCount - a set at rest whose status the controller has nothing to add to
		if ix[5] >= 3 {
			if ix[5] == 3 {
				s.CurRev = "t2.0"
			}
			censusStatus(s, sc.Pods)
		}
		// a pod whose name parses to the largest int32 ordinal (anybody can create one with matching labels)
		switch ix[12] {
		case 1:
			sc.Pods = append(sc.Pods, PodSpec{Ord: 2147483647, Phase: "Running", Ready: false, Rev: "t2.0", Owner: "self"})
		case 2:
			sc.Pods = append(sc.Pods, PodSpec{Ord: 2147483647, Phase: "Running", Ready: true, Rev: "t2.0", Owner: "none"})
		}
		sc.Raw = func(set *apps.StatefulSet) *apps.StatefulSet {
			// rebuild the spec through JSON so that omitted fields are really absent
			b, _ := json.Marshal(set)
			var m map[string]interface{}
			json.Unmarshal(b, &m)
			spec := m["spec"].(map[string]interface{})
			us := map[string]interface{}{}
			// strategy: 0 absent, 1 {}, 2.. type strings
			switch ix[0] {
			case 0:
				us = nil
			case 1:
			default:
				us["type"] = admStrategyTypes[ix[0]-1]
			}
			if us != nil {
				switch ix[1] {
				case 0: // no rollingUpdate key
				case 1:
					us["rollingUpdate"] = map[string]interface{}{}
				case 2:
					us["rollingUpdate"] = map[string]interface{}{"partition": -1}
				case 3:
					us["rollingUpdate"] = map[string]interface{}{"partition": 0}
				case 4:
					us["rollingUpdate"] = map[string]interface{}{"partition": 1}
				case 5:
					us["rollingUpdate"] = map[string]interface{}{"partition": 7}
				}
				spec["updateStrategy"] = us
			} else {
				delete(spec, "updateStrategy")
			}
			if s.Policy == "" {
				delete(spec, "podManagementPolicy")
			}
			switch ix[3] {
			case 1:
				spec["selector"] = map[string]interface{}{}
			case 2:
				spec["selector"] = map[string]interface{}{"matchExpressions": []interface{}{map[string]interface{}{"key": "app", "operator": "Bogus"}}}
			case 3:
				// the schema validates neither selector nor template: an empty selector over a template without labels (t4)
				spec["selector"] = map[string]interface{}{}
			}
			meta := m["metadata"].(map[string]interface{})
			ann := map[string]interface{}{}
			switch ix[4] {
			case 1:
				ann["delete-slots"] = "[1]"
			case 2:
				ann["delete-slots"] = "not json"
			case 3:
				ann["delete-slots"] = "[-1,99999999999]"
			case 4:
				ann["delete-slots"] = "[-5,0,2147483647]"
			case 5:
				ann["delete-slots"] = "[0,1,2,3]"
				ann["paused-reconcile"] = "TRUE"
			}
			if len(ann) > 0 {
				meta["annotations"] = ann
			}
			switch ix[5] {
			case 1:
				delete(m, "status")
			case 2:
				m["status"] = map[string]interface{}{"replicas": 1}
			case 3, 4:
				if st, ok := m["status"].(map[string]interface{}); ok {
					delete(st, "collisionCount")
				}
			}
			nb, _ := json.Marshal(m)
			out := &apps.StatefulSet{}
			if err := json.Unmarshal(nb, out); err != nil {
				panic(err)
			}
			if ix[7] == 1 {
				apps.SetObjectDefaults_StatefulSet(out)
			}
			return out
		}
		return sc
	}
	return d
}

var faultKinds = []Fault{
	{Kind: "ServerError"}, {Kind: "Conflict"}, {Kind: "NotFound"}, {Kind: "AlreadyExists"}, {Kind: "Timeout"},
	{Kind: "Timeout", Applied: true}, {Die: true, Kind: "Die"}, {Die: true, Applied: true, Kind: "Die"},
	{Kind: "Forbidden"}, {Kind: "Invalid"},
}

// FaultDomain wraps a snapshot domain with one or two injected faults: every plan position 1..maxK (positions past
// the end of a plan simply never fire), every list call 1..4, every error kind, "applied but reported failed",
// and process death before / after the call took effect.
func FaultDomain(base *Domain, maxK int, pairs bool) *Domain {
	npos := maxK + 4
	dims := append(append([]int{}, base.Dims...), npos, len(faultKinds))
	if pairs {
		dims = append(dims, npos+1, len(faultKinds)) // second fault; position index npos = none
	}
	nb := len(base.Dims)
	d := &Domain{Name: "faults[" + base.Name + "]", Dims: dims}
	mk := func(pos, kind int) Fault {
		f := faultKinds[kind]
		if pos < maxK {
			f.K = pos + 1
		} else {
			f.List = pos - maxK + 1
		}
		return f
	}
	d.Make = func(ix []int) *Scenario {
		sc := base.Make(ix[:nb])
		sc.Dom = ix
		sc.Faults = []Fault{mk(ix[nb], ix[nb+1])}
		if pairs && ix[nb+2] < npos && ix[nb+2] != ix[nb] {
			sc.Faults = append(sc.Faults, mk(ix[nb+2], ix[nb+3]))
		}
		return sc
	}
	return d
}

// EvictDomain: a fault domain in which the first fault also makes the set (1) or the pod the failing call is about (2)
// vanish from the informer cache at that moment - the re-read that follows a Conflict then finds nothing.
func EvictDomain(base *Domain) *Domain {
	nb := len(base.Dims)
	d := &Domain{Name: "evict[" + base.Name + "]", Dims: append(append([]int{}, base.Dims...), 2)}
	d.Make = func(ix []int) *Scenario {
		sc := base.Make(ix[:nb])
		sc.Dom = ix
		if len(sc.Faults) > 0 {
			sc.Faults[0].Evict = []string{"set", "pod"}[ix[nb]]
		}
		return sc
	}
	return d
}

func extraDomain(name string, maxOrd, maxRep, nph int) *Domain {
	switch name {
	case "evict-pods":
		return EvictDomain(FaultDomain(PodsDomain(maxOrd, maxRep, nph, false), 8, false))
	case "evict-claims":
		base := ClaimsDomain()
		base.Dims[0] = 2
		return EvictDomain(FaultDomain(base, 8, false))
	case "faults-pods":
		return FaultDomain(PodsDomain(maxOrd, maxRep, nph, false), 8, false)
	case "faults2-pods":
		return FaultDomain(PodsDomain(maxOrd, maxRep, nph, false), 8, true)
	case "faults-own-pods":
		return FaultDomain(OwnPodsDomain(2), 6, false)
	case "faults-adopt":
		return FaultDomain(AdoptDomain(), 6, false)
	case "faults-own-revs":
		return FaultDomain(OwnRevsDomain(), 8, false)
	case "faults-history":
		return FaultDomain(HistoryDomain(), 8, false)
	case "faults2-history":
		return FaultDomain(HistoryDomain(), 8, true)
	case "faults-claims":
		// at most one claim template: with two, the order of the claim creates is Go map order, and which one an
		// injected fault hits would not be reproducible
		base := ClaimsDomain()
		base.Dims[0] = 2
		return FaultDomain(base, 8, false)
	case "own-pods":
		return OwnPodsDomain(2)
	case "own-pods3":
		return OwnPodsDomain(3)
	case "own-revs":
		return OwnRevsDomain()
	case "adopt":
		return AdoptDomain()
	case "history":
		return HistoryDomain()
	case "pods-settled":
		// the pods domain restricted to pods nobody is waiting for: per ordinal absent or Running, Ready, not terminating at
		// one of the three revisions.  Whatever a reconcile leaves undone here stays undone (no event is outstanding).
		full := PodsDomain(maxOrd, maxRep, nph, false)
		nOrd := maxOrd + 1
		dims := append([]int{}, full.Dims...)
		for o := 0; o < nOrd; o++ {
			dims[7+o] = 4
		}
		d := &Domain{Name: "pods-settled: " + full.Name, Dims: dims}
		d.Make = func(ix []int) *Scenario {
			jx := append([]int{}, ix...)
			for o := 0; o < nOrd; o++ {
				if ix[7+o] > 0 {
					jx[7+o] = 1 + (ix[7+o] - 1) + 6*2 // phaseTab[2] = Running and Ready, not terminating, revision ix-1
				}
			}
			sc := full.Make(jx)
			sc.Dom = ix
			return sc
		}
		return d
	case "pods-dotted":
		// the pods domain for a set whose name is a DNS subdomain with dots and a digit-only last label ("db.v1.2"): pod
		// names, host names, the pod-name label and the claim names are derived from "<set>-<ordinal>" all the same
		d := PodsDomain(maxOrd, maxRep, nph, false)
		d.Name = "pods-dotted: " + d.Name
		inner := d.Make
		d.Make = func(ix []int) *Scenario {
			sc := inner(ix)
			sc.Set.Name = "db.v1.2"
			return sc
		}
		return d
	case "history-slots":
		// the history domain of a set with a delete slot: replicas 2, slot 0 -> the desired pods sit at ordinals 1 and 2,
		// one of them at an ordinal >= spec.replicas (which upstream's controller would call condemned)
		d := HistoryDomain()
		d.Name = "history-slots(4 revisions, 2 pods at ordinals 1 and 2, slot 0)"
		inner := d.Make
		d.Make = func(ix []int) *Scenario {
			sc := inner(ix)
			sc.Set.SlotsAnn = slotsAnn([]int{0})
			for i := range sc.Pods {
				sc.Pods[i].Ord++
			}
			return sc
		}
		return d
	case "claims":
		return ClaimsDomain()
	case "admitted":
		return AdmittedDomain()
	}
	return nil
}
