package main

// actors.go: the other actors of the cluster (kubelet, API-server side effects, user),
// implemented directly on MiniAPI's store. Each one is one spec action of Cluster.tla.

import (
	v1 "k8s.io/api/core/v1"
	metav1 "k8s.io/apimachinery/pkg/apis/meta/v1"

	apps "github.com/pingcap/advanced-statefulset/client/apis/apps/v1"
)

// PodRunning: the kubelet starts the pod (Pending -> Running, scheduled).
func (e *Env) PodRunning(name string) bool {
	p := e.apiPod(name)
	if p == nil || p.Status.Phase != v1.PodPending {
		return false
	}
	p = p.DeepCopy()
	p.Spec.NodeName = "node-1"
	p.Status.Phase = v1.PodRunning
	e.api.Put(RPods, p)
	return true
}

// PodReady / PodUnready toggle the Ready condition of a running pod.
func (e *Env) PodSetReady(name string, ready bool) bool {
	p := e.apiPod(name)
	if p == nil || p.Status.Phase != v1.PodRunning || podReady(p) == ready {
		return false
	}
	p = p.DeepCopy()
	st := v1.ConditionFalse
	if ready {
		st = v1.ConditionTrue
	}
	p.Status.Conditions = []v1.PodCondition{{Type: v1.PodReady, Status: st}}
	e.api.Put(RPods, p)
	return true
}

// PodFinish: the pod's containers exit (Failed or Succeeded).
func (e *Env) PodFinish(name string, phase v1.PodPhase) bool {
	p := e.apiPod(name)
	if p == nil || p.Status.Phase == v1.PodFailed || p.Status.Phase == v1.PodSucceeded {
		return false
	}
	p = p.DeepCopy()
	p.Spec.NodeName = "node-1"
	p.Status.Phase = phase
	p.Status.Conditions = nil
	e.api.Put(RPods, p)
	return true
}

// FinishTerminating: graceful deletion completes, the pod object disappears.
func (e *Env) FinishTerminating(name string) bool {
	p := e.apiPod(name)
	if p == nil || p.DeletionTimestamp == nil {
		return false
	}
	e.api.Remove(RPods, name)
	return true
}

// KubeletAll: every pending pod becomes Running and Ready, every terminating pod goes away.
func (e *Env) KubeletAll() { e.KubeletSome(nil) }

// KubeletSome: one round of kubelet progress. With seen == nil terminating pods finish at once; otherwise (a slower,
// equally fair kubelet) a terminating pod finishes in the round after the one it was first seen terminating in, so that
// one reconcile sees the pod it deleted still terminating. seen is keyed by pod uid.
func (e *Env) KubeletSome(seen map[string]bool) {
	for _, n := range e.api.Names(RPods) {
		p := e.apiPod(n)
		if p.DeletionTimestamp != nil {
			if seen == nil || seen[string(p.UID)] {
				e.api.Remove(RPods, n)
			} else {
				seen[string(p.UID)] = true
			}
			continue
		}
		if p.Status.Phase == v1.PodPending {
			e.PodRunning(n)
		}
		e.PodSetReady(n, true)
	}
}

// UserUpdate applies an edit to the stored set the way a client Update would (generation bump on spec change).
func (e *Env) UserUpdate(name string, f func(s *apps.StatefulSet)) bool {
	old := e.apiSet(name)
	if old == nil {
		return false
	}
	s := old.DeepCopy()
	f(s)
	if !specEqual(old, s) {
		s.Generation = old.Generation + 1
	}
	e.api.Put(RSet, s)
	return true
}

func specEqual(a, b *apps.StatefulSet) bool {
	ja, _ := jsonMarshal(a.Spec)
	jb, _ := jsonMarshal(b.Spec)
	return string(ja) == string(jb)
}

func (e *Env) MarkSetDeleting(name string) bool {
	return e.UserUpdate(name, func(s *apps.StatefulSet) {
		if s.DeletionTimestamp == nil {
			now := metav1.Unix(e.api.now, 0)
			s.DeletionTimestamp = &now
		}
	})
}
